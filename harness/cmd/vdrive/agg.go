// agg: C06 in-process conformance driver.
//
//	vdrive agg      -out trace.ndjson -runs N [-engine E] [-cancel C] [-dropstress S]
//	vdrive aggcases -in cases.ndjson -out obs.ndjson
//
// `agg` drives the REAL netsample.NewPhout (on an afero mem file) and the REAL
// aggregator.NewJSONLinesAggregator (on a buffer sink) with K goroutines, seeded samples, queue sizes,
// flush intervals and a cancel at a seeded instant after the last report, and records what happened:
//
//	Run{run,kind,ids,k,q,flush_ms,via,mode}   Report{run,g,i,s} | Reports{run,g,n,s}
//	Cancel{run[,returned_before]}
//	Line{run,c:[13 strings]} | JLine{run,s} | BadLine{run,raw}    (as the sink receives complete lines)
//	SinkClosed{run,partial}   RunEnd{run,err,dropped,timeout}   Content{run,lines,partial}   EngineEnd{run,err,timeout}
//
// Modes of a direct run: normal; late (Run starts after the reports and the cancel); burst (all goroutines
// fire at once); dropstress (thousands of concurrent drops).  `-engine E` adds E full engine.Engine runs
// with the real aggregators behind mock guns that end by themselves, `-cancel C` engine runs that are
// cancelled from outside at a seeded instant mid-run (then Engine.Wait()).
// The driver only RECORDS (a strict syntactic line splitter is the trusted base); TraceAggregator.tla decides.
//
// `aggcases` renders TLC-generated abstract samples (spec/PhoutCases.tla) through the real phout
// aggregator, one aggregator per case, and records the columns of the line that came out.
package main

import (
	"bufio"
	"bytes"
	"context"
	"encoding/json"
	"errors"
	"flag"
	"fmt"
	"io"
	"math"
	"math/rand"
	"os"
	"reflect"
	"regexp"
	"strconv"
	"strings"
	"sync"
	"sync/atomic"
	"time"
	"unsafe"

	"github.com/c2h5oh/datasize"
	"github.com/spf13/afero"
	"github.com/yandex/pandora/core"
	"github.com/yandex/pandora/core/aggregator"
	"github.com/yandex/pandora/core/aggregator/netsample"
	"github.com/yandex/pandora/core/config"
	"github.com/yandex/pandora/core/datasink"
	"github.com/yandex/pandora/core/engine"
	coreimport "github.com/yandex/pandora/core/import"
	"github.com/yandex/pandora/core/schedule"
	"github.com/yandex/pandora/lib/monitoring"
	"go.uber.org/zap"
	"go.uber.org/zap/zapcore"

	"verifharness/internal/vt"
)

func init() {
	register("agg", aggMain)
	register("aggcases", aggCasesMain)
}

// ---------------------------------------------------------------- abstract sample

// absSample is the abstract sample of spec/Phout.tla.  It is also the sample type reported to the
// jsonlines aggregator (core.Sample is interface{}), G/I identify the report.
type absSample struct {
	G   int    `json:"g"`
	I   int    `json:"i"`
	Sec int    `json:"sec"`
	Ms  int    `json:"ms"`
	Tag string `json:"tag"`
	// a tag with column / line delimiters travels as atoms: text pieces and "<TAB>" "<LF>" "<CR>" (spec/Phout.tla
	// TagText says what the tag column must be; rawTag renders the real characters)
	TagP []string `json:"tagp,omitempty"`
	ID   int      `json:"id"`
	F    []int    `json:"f"`
}

func (a absSample) rawTag() string {
	if len(a.TagP) == 0 {
		return a.Tag
	}
	var b strings.Builder
	for _, p := range a.TagP {
		switch p {
		case "<TAB>":
			b.WriteByte('\t')
		case "<LF>":
			b.WriteByte('\n')
		case "<CR>":
			b.WriteByte('\r')
		default:
			b.WriteString(p)
		}
	}
	return b.String()
}

var fieldSetters = []func(s *netsample.Sample, v int){
	func(s *netsample.Sample, v int) { s.SetUserDuration(time.Duration(v) * time.Microsecond) },
	func(s *netsample.Sample, v int) { s.SetConnectTime(time.Duration(v) * time.Microsecond) },
	func(s *netsample.Sample, v int) { s.SetSendTime(time.Duration(v) * time.Microsecond) },
	func(s *netsample.Sample, v int) { s.SetLatency(time.Duration(v) * time.Microsecond) },
	func(s *netsample.Sample, v int) { s.SetReceiveTime(time.Duration(v) * time.Microsecond) },
	nil, // interval_event has no setter
	func(s *netsample.Sample, v int) { s.SetRequestBytes(v) },
	func(s *netsample.Sample, v int) { s.SetResponseBytes(v) },
	func(s *netsample.Sample, v int) { s.SetUserNet(v) },
	func(s *netsample.Sample, v int) { s.SetUserProto(v) },
}

// private fields of netsample.Sample that have no setter (time stamp, interval_event) are set
// through reflect+unsafe: the harness needs to choose them to cover the format's domain.
func setPrivate(s *netsample.Sample, name string, v interface{}) {
	f := reflect.ValueOf(s).Elem().FieldByName(name)
	if !f.IsValid() {
		panic("netsample.Sample has no field " + name)
	}
	reflect.NewAt(f.Type(), unsafe.Pointer(f.UnsafeAddr())).Elem().Set(reflect.ValueOf(v))
}

func realSample(a absSample) *netsample.Sample {
	s := netsample.Acquire(a.rawTag())
	s.SetID(uint64(a.ID))
	for k, set := range fieldSetters {
		if set != nil {
			set(s, a.F[k])
		}
	}
	f := reflect.ValueOf(s).Elem().FieldByName("fields")
	arr := reflect.NewAt(f.Type(), unsafe.Pointer(f.UnsafeAddr())).Elem()
	arr.Index(5).SetInt(int64(a.F[5]))
	setPrivate(s, "timeStamp", time.Unix(int64(a.Sec), int64(a.Ms)*1000000+int64(a.G*7919+a.I*104729)%1000000))
	return s
}

var interesting = []int{0, 0, 0, 1, -1, 7, 13, 200, 404, 999, 65535, 1000000, math.MaxInt32, -math.MaxInt32}
var tagAlphabet = []string{"", "a", "tag", "case one", "a|b", "x#y", "#", "häß", "0", "-1", "get /x?y=1&z=2", "\"q\"", "\\n"}

func genSample(r *rand.Rand, g, i int) absSample {
	a := absSample{G: g, I: i, F: make([]int, 10)}
	switch r.Intn(4) {
	case 0:
		a.Sec = 1000000000 + r.Intn(1000)
	case 1:
		a.Sec = math.MaxInt32 - r.Intn(3)
	default:
		a.Sec = 1500000000 + r.Intn(500000000)
	}
	switch r.Intn(5) {
	case 0:
		a.Ms = 0
	case 1:
		a.Ms = r.Intn(10)
	case 2:
		a.Ms = 10 + r.Intn(90)
	case 3:
		a.Ms = 999
	default:
		a.Ms = r.Intn(1000)
	}
	a.Tag = tagAlphabet[r.Intn(len(tagAlphabet))]
	if r.Intn(3) == 0 {
		a.Tag += strconv.Itoa(r.Intn(1000))
	}
	switch r.Intn(3) {
	case 0:
		a.ID = 0
	case 1:
		a.ID = r.Intn(100000)
	default:
		a.ID = math.MaxInt32 - r.Intn(2)
	}
	for k := range a.F {
		if r.Intn(2) == 0 {
			a.F[k] = interesting[r.Intn(len(interesting))]
		} else {
			a.F[k] = r.Intn(2000000) - 1000
		}
	}
	return a
}

// ---------------------------------------------------------------- recording sinks

// lineSink receives the bytes the aggregator writes to its destination, cuts them into lines and
// emits one event per complete line at the moment the line is complete.
type lineSink struct {
	mu      sync.Mutex
	run     int
	w       *vt.Writer
	pending []byte
	closed  bool
	lines   int
	parse   func(run int, line []byte) interface{}
	// fault injection (runs with cfg.fault != ""): the failAt-th Write call and every later one fails like a
	// full disk does - "err": nothing taken, error; "partial": half of the bytes taken, error; "short": half
	// of the bytes taken and NO error (a short count); "close": writes succeed, Close returns an error
	fault   string
	failAt  int
	nwrites int
	failed  bool
}

var errSinkFull = errors.New("injected: no space left on device")

func (s *lineSink) Write(p []byte) (int, error) {
	s.mu.Lock()
	defer s.mu.Unlock()
	if s.closed {
		s.w.Emit(map[string]interface{}{"ev": "WriteAfterClose", "run": s.run, "n": len(p)})
	}
	s.nwrites++
	var werr error
	total := len(p)
	if s.fault != "" && s.fault != "close" && (s.failed || s.nwrites >= s.failAt) {
		k := 0
		if !s.failed && s.fault != "err" {
			k = len(p) / 2
		}
		if s.fault != "short" || s.failed {
			werr = errSinkFull
		}
		// logged BEFORE the call returns: the aggregator has not seen the failure yet
		s.w.Emit(map[string]interface{}{"ev": "SinkFault", "run": s.run, "how": s.fault, "offered": total, "taken": k, "first": !s.failed})
		s.failed = true
		p = p[:k]
	}
	s.pending = append(s.pending, p...)
	for {
		k := bytes.IndexByte(s.pending, '\n')
		if k < 0 {
			break
		}
		s.w.Emit(s.parse(s.run, s.pending[:k]))
		s.lines++
		s.pending = s.pending[k+1:]
	}
	return len(p), werr
}

func (s *lineSink) Close() error {
	s.mu.Lock()
	defer s.mu.Unlock()
	s.closed = true
	if s.fault == "close" {
		s.w.Emit(map[string]interface{}{"ev": "SinkFault", "run": s.run, "how": "close", "offered": 0, "taken": 0, "first": true})
		s.failed = true
	}
	s.w.Emit(map[string]interface{}{"ev": "SinkClosed", "run": s.run, "partial": len(s.pending)})
	if s.fault == "close" {
		return errSinkFull
	}
	return nil
}

// strict syntactic splitter of a phout line (trusted base): digits "." 3 digits, TAB, tag column
// (no TAB), then exactly ten TAB-separated integers.
var phoutRe = regexp.MustCompile(`^([0-9]+)\.([0-9]{3})\t([^\t\n]*)((?:\t-?[0-9]+){10})$`)

func parsePhout(run int, line []byte) interface{} {
	m := phoutRe.FindSubmatch(line)
	if m == nil {
		return map[string]interface{}{"ev": "BadLine", "run": run, "raw": string(line)}
	}
	cols := []string{string(m[1]), string(m[2]), string(m[3])}
	cols = append(cols, strings.Split(string(m[4]), "\t")[1:]...)
	return map[string]interface{}{"ev": "Line", "run": run, "c": cols}
}

// a jsonlines line must be exactly one JSON value and decode to an abstract sample
func parseJSONLine(run int, line []byte) interface{} {
	dec := json.NewDecoder(bytes.NewReader(line))
	dec.DisallowUnknownFields()
	var a jsonSample
	if err := dec.Decode(&a); err != nil || a.F == nil {
		return map[string]interface{}{"ev": "BadLine", "run": run, "raw": string(line)}
	}
	if _, err := dec.Token(); err != io.EOF {
		return map[string]interface{}{"ev": "BadLine", "run": run, "raw": string(line)}
	}
	return map[string]interface{}{"ev": "JLine", "run": run, "s": a.project()}
}

// recFs: an afero mem fs whose created files tee everything into a lineSink.
type recFs struct {
	afero.Fs
	sink *lineSink
}

type recFile struct {
	afero.File
	sink *lineSink
}

func (f *recFs) Create(name string) (afero.File, error) {
	file, err := f.Fs.Create(name)
	if err != nil {
		return nil, err
	}
	return &recFile{file, f.sink}, nil
}
func (f *recFile) Write(p []byte) (int, error) {
	// the recording sink decides how much the "disk" takes (fault injection); the mem file keeps exactly that
	n, err := f.sink.Write(p)
	if _, ferr := f.File.Write(p[:n]); ferr != nil {
		panic(ferr)
	}
	return n, err
}
func (f *recFile) Close() error {
	err := f.File.Close()
	if serr := f.sink.Close(); serr != nil {
		return serr
	}
	return err
}

type bufSink struct{ sink *lineSink }

func (b bufSink) OpenSink() (io.WriteCloser, error) { return b.sink, nil }

// ---------------------------------------------------------------- one run

type aggRun struct {
	run       int
	kind      string // "phout" | "jsonlines"
	ids       bool
	k         int
	per       []int
	q         int
	flushMs   int
	delayUs   int
	via       string // "direct" | "engine"
	mode      string // direct runs: "normal" | "late" | "burst"
	failAfter int    // via "provfail": the provider fails when that many ammo were acquired
	fault     string // "" | "err" | "partial" | "short" | "close": what the sink does from its failAt-th Write on
	failAt    int
	// how the aggregator is made: "ctor" = the package constructors; "factory" = config.Decode of
	// `{result: {type: ...}}` through the plugin factories coreimport.Import registered (default config,
	// option names, the sink string hook), in the map shape viper ("viper") or yaml.v2 ("yaml") produces
	build    string
	shape    string
	typ      string // registered type name: phout | jsonlines | json | log | discard
	sinkForm string // jsonlines: "buffer" (ctor only) | "file" ({type: file, path}) | "path" (a plain string) | "stdout" | "stderr"
}

// runAggregator captures the aggregator's own Run result (the engine may or may not forward it).
type runCapture struct {
	core.Aggregator
	done chan error
}

func (c *runCapture) Run(ctx context.Context, deps core.AggregatorDeps) error {
	err := c.Aggregator.Run(ctx, deps)
	c.done <- err
	return err
}

// buffer-size option bounds (coreutil.BufferSizeConfig): 0 = default (512 KiB), below 4 KiB = raised to the
// minimum, 4 KiB (spills after ~60 lines), 100 KB
func (cfg aggRun) bufSize() int { return []int{4096, 0, 1, 100000, 4096}[cfg.run%5] }

// ---------------------------------------------------------------- aggregators made by the registered factories

// routeFs is the one afero.Fs the plugin factories are registered with (coreimport.Import): files under
// /r<run>/ are mem files that tee into that run's recording sink.
type routeFs struct {
	afero.Fs
	mu    sync.Mutex
	sinks map[string]*lineSink
}

var factoryFs = &routeFs{Fs: afero.NewMemMapFs(), sinks: map[string]*lineSink{}}
var aggImportOnce sync.Once

func (f *routeFs) sinkOf(name string) *lineSink {
	f.mu.Lock()
	defer f.mu.Unlock()
	parts := strings.SplitN(strings.TrimPrefix(name, "/"), "/", 2)
	return f.sinks[parts[0]]
}
func (f *routeFs) Create(name string) (afero.File, error) {
	file, err := f.Fs.Create(name)
	if s := f.sinkOf(name); err == nil && s != nil {
		s.w.Emit(map[string]interface{}{"ev": "Open", "run": s.run, "create": true, "trunc": true, "append": false})
		return &recFile{file, s}, nil
	}
	return file, err
}
func (f *routeFs) OpenFile(name string, flag int, perm os.FileMode) (afero.File, error) {
	file, err := f.Fs.OpenFile(name, flag, perm)
	if s := f.sinkOf(name); err == nil && s != nil {
		s.w.Emit(map[string]interface{}{"ev": "Open", "run": s.run, "create": flag&os.O_CREATE != 0, "trunc": flag&os.O_TRUNC != 0, "append": flag&os.O_APPEND != 0})
		return &recFile{file, s}, nil
	}
	return file, err
}

func aggShape(v interface{}, shape string) interface{} {
	switch x := v.(type) {
	case map[string]interface{}:
		if shape == "yaml" {
			m := map[interface{}]interface{}{}
			for k, e := range x {
				m[k] = aggShape(e, shape)
			}
			return m
		}
		m := map[string]interface{}{}
		for k, e := range x {
			m[k] = aggShape(e, shape)
		}
		return m
	}
	return v
}

// std sinks: "stdout" / "stderr" resolve to os.Stdout / os.Stderr when the factory runs.  The driver points
// that variable at a pipe for the time of the factory call (runs of this form are made one at a time).
type stdCapture struct {
	r, wr *os.File
	done  chan struct{}
}

var stdMu sync.Mutex

func factoryAggregator(cfg aggRun, w *vt.Writer, sink *lineSink) (core.Aggregator, func() (int, int), *stdCapture) {
	aggImportOnce.Do(func() { coreimport.Import(factoryFs) })
	dir := fmt.Sprintf("r%d", cfg.run)
	factoryFs.mu.Lock()
	factoryFs.sinks[dir] = sink
	factoryFs.mu.Unlock()
	path := "/" + dir + "/result.out"
	// stale content: whatever made the file must truncate it
	if err := afero.WriteFile(factoryFs.Fs, path, []byte("stale line of an earlier run\nand half a li"), 0644); err != nil {
		panic(err)
	}
	res := map[string]interface{}{"type": cfg.typ}
	var content func() (int, int)
	var sc *stdCapture
	fileContent := func() (int, int) {
		b, err := afero.ReadFile(factoryFs.Fs, path)
		if err != nil {
			panic(err)
		}
		return bytes.Count(b, []byte{'\n'}), len(b) - (bytes.LastIndexByte(b, '\n') + 1)
	}
	bufOpt := func() {
		// the option as a config file gives it: a number, or a string with a unit
		switch b := cfg.bufSize(); {
		case b == 0: // absent: the registered default config applies
		case cfg.run%2 == 0:
			res["buffer-size"] = b
		case b == 4096:
			res["buffer-size"] = "4kb"
		default:
			res["buffer-size"] = strconv.Itoa(b)
		}
	}
	switch cfg.kind {
	case "phout":
		sink.parse = parsePhout
		res["destination"] = path
		res["id"] = cfg.ids
		res["sample-queue-size"] = cfg.q
		if cfg.run%3 == 0 {
			res["flush-time"] = fmt.Sprintf("%dms", cfg.flushMs)
		}
		bufOpt()
		content = fileContent
	case "jsonlines":
		sink.parse = parseJSONLine
		switch cfg.sinkForm {
		case "file":
			res["sink"] = map[string]interface{}{"type": "file", "path": path}
			content = fileContent
		case "path":
			res["sink"] = path // the sink string hook: any string that is no registered name is a file path
			content = fileContent
		default:
			res["sink"] = cfg.sinkForm // "stdout" | "stderr"
		}
		res["sample-queue-size"] = cfg.q
		switch {
		case cfg.run%7 == 0:
			res["flush-interval"] = 0 // option bound: no ticker at all
		case cfg.run%7 == 1:
			res["flush-interval"] = "1h" // option bound: the ticker never fires within the run
		default:
			res["flush-interval"] = fmt.Sprintf("%dms", cfg.flushMs)
		}
		bufOpt()
		if cfg.run%4 == 0 {
			res["sort-map-keys"] = true
			res["marshal-float-with-6-digits"] = true
		}
	}
	var holder struct {
		Result core.Aggregator
	}
	decode := func() {
		if err := config.DecodeAndValidate(aggShape(map[string]interface{}{"result": res}, cfg.shape), &holder); err != nil || holder.Result == nil {
			panic(fmt.Sprintf("run %d: the registered %s factory rejected %v: %v", cfg.run, cfg.typ, res, err))
		}
	}
	if cfg.sinkForm == "stdout" || cfg.sinkForm == "stderr" {
		r, wr, err := os.Pipe()
		if err != nil {
			panic(err)
		}
		sc = &stdCapture{r: r, wr: wr, done: make(chan struct{})}
		stdMu.Lock()
		if cfg.sinkForm == "stdout" {
			old := os.Stdout
			os.Stdout = wr
			decode()
			os.Stdout = old
		} else {
			old := os.Stderr
			os.Stderr = wr
			decode()
			os.Stderr = old
		}
		stdMu.Unlock()
		go func() {
			defer close(sc.done)
			buf := make([]byte, 32768)
			for {
				n, err := r.Read(buf)
				if n > 0 {
					sink.Write(buf[:n])
				}
				if err != nil {
					return
				}
			}
		}()
	} else {
		decode()
	}
	return holder.Result, content, sc
}

// drain: Run has returned; what it has not handed to the standard stream by now never arrives
func (sc *stdCapture) drain(sink *lineSink) {
	sc.wr.Close()
	<-sc.done
	sc.r.Close()
	sink.mu.Lock()
	defer sink.mu.Unlock()
	sink.w.Emit(map[string]interface{}{"ev": "StdDrained", "run": sink.run, "partial": len(sink.pending)})
}

func buildAggregator(cfg aggRun, w *vt.Writer) (core.Aggregator, func() (int, int)) {
	a, content, _ := buildAggregator2(cfg, w)
	return a, content
}

func buildAggregator2(cfg aggRun, w *vt.Writer) (core.Aggregator, func() (int, int), func()) {
	sink := &lineSink{run: cfg.run, w: w, fault: cfg.fault, failAt: cfg.failAt}
	if cfg.build == "factory" {
		a, content, sc := factoryAggregator(cfg, w, sink)
		if sc != nil {
			return a, content, func() { sc.drain(sink) }
		}
		return a, content, nil
	}
	if cfg.kind == "test" {
		// aggregator.NewTest keeps every sample in memory (GetSamples); its content is read when Run has returned
		t := aggregator.NewTest()
		sink.parse = parseJSONLine
		return t, nil, func() {
			for _, smp := range t.GetSamples() {
				b, err := json.Marshal(smp)
				if err != nil {
					panic(err)
				}
				sink.Write(append(b, '\n'))
			}
			sink.mu.Lock()
			defer sink.mu.Unlock()
			sink.w.Emit(map[string]interface{}{"ev": "StdDrained", "run": sink.run, "partial": len(sink.pending)})
		}
	}
	if cfg.kind == "jsonlines" && cfg.sinkForm == "membuffer" {
		// the repository's in-memory data sink (datasink.NewBuffer): read when Run has returned
		buf := datasink.NewBuffer()
		sink.parse = parseJSONLine
		conf := aggregator.DefaultJSONLinesAggregatorConfig()
		conf.Sink = buf
		conf.FlushInterval = time.Duration(cfg.flushMs) * time.Millisecond
		conf.ReporterConfig.SampleQueueSize = cfg.q
		conf.JSONLineEncoderConfig.BufferSizeConfig.BufferSize = datasize.ByteSize(cfg.bufSize())
		return aggregator.NewJSONLinesAggregator(conf), nil, func() {
			sink.Write(buf.Bytes())
			sink.mu.Lock()
			defer sink.mu.Unlock()
			sink.w.Emit(map[string]interface{}{"ev": "StdDrained", "run": sink.run, "partial": len(sink.pending)})
		}
	}
	a, content := ctorAggregator(cfg, w, sink)
	return a, content, nil
}

func ctorAggregator(cfg aggRun, w *vt.Writer, sink *lineSink) (core.Aggregator, func() (int, int)) {
	switch cfg.kind {
	case "phout":
		sink.parse = parsePhout
		mem := afero.NewMemMapFs()
		fs := &recFs{mem, sink}
		conf := netsample.DefaultPhoutConfig()
		conf.Destination = "/phout.log"
		conf.ID = cfg.ids
		conf.SampleQueueSize = cfg.q
		conf.FlushTime = time.Duration(cfg.flushMs) * time.Millisecond
		conf.Buffer.BufferSize = datasize.ByteSize(cfg.bufSize())
		a, err := netsample.NewPhout(fs, conf)
		if err != nil {
			panic(err)
		}
		content := func() (int, int) {
			b, err := afero.ReadFile(mem, "/phout.log")
			if err != nil {
				panic(err)
			}
			n := bytes.Count(b, []byte{'\n'})
			return n, len(b) - (bytes.LastIndexByte(b, '\n') + 1)
		}
		return netsample.WrapAggregator(a), content
	case "log":
		// every sample is written through to the logger at Info level: the logger is the sink
		return aggregator.NewLog(), nil
	case "discard":
		return aggregator.NewDiscard(), nil
	case "jsonlines":
		sink.parse = parseJSONLine
		conf := aggregator.DefaultJSONLinesAggregatorConfig()
		conf.Sink = bufSink{sink}
		conf.FlushInterval = time.Duration(cfg.flushMs) * time.Millisecond
		if cfg.run%7 == 0 {
			conf.FlushInterval = 0 // option bound: no periodic flush at all, only the final one
		}
		conf.ReporterConfig.SampleQueueSize = cfg.q
		conf.JSONLineEncoderConfig.BufferSizeConfig.BufferSize = datasize.ByteSize(cfg.bufSize())
		return aggregator.NewJSONLinesAggregator(conf), nil
	}
	panic("kind")
}

// tokSample: the sample type reported to the log / discard aggregators.  It prints as "S<g>-<i>" and is a
// core.BorrowedSample: Return() must be called exactly once by an aggregator that does not keep it.
type tokSample struct {
	G, I     int
	returned *int64
}

func (t *tokSample) String() string { return fmt.Sprintf("S%d-%d", t.G, t.I) }
func (t *tokSample) Return()        { atomic.AddInt64(t.returned, 1) }

var tokReturned sync.Map // run -> *int64

func tokCounter(run int) *int64 {
	c, _ := tokReturned.LoadOrStore(run, new(int64))
	return c.(*int64)
}

// logCore is a zapcore.Core that records every entry the log aggregator writes.
type logCore struct {
	run int
	w   *vt.Writer
}

func (c logCore) Enabled(zapcore.Level) bool        { return true }
func (c logCore) With([]zapcore.Field) zapcore.Core { return c }
func (c logCore) Check(e zapcore.Entry, ce *zapcore.CheckedEntry) *zapcore.CheckedEntry {
	return ce.AddCore(e, c)
}
func (c logCore) Write(e zapcore.Entry, _ []zapcore.Field) error {
	c.w.Emit(map[string]interface{}{"ev": "LogLine", "run": c.run, "msg": e.Message, "level": e.Level.String()})
	return nil
}
func (c logCore) Sync() error { return nil }

// jsonSample: what is reported to the jsonlines (and the in-memory test) aggregator: the abstract sample plus, in one
// of three reports, values of every JSON kind - a map (key order: sort-map-keys), a float (marshal-float-with-6-digits:
// the values are exact in six decimals), a bool, nested arrays / an empty object, bytes (base64), a 64-bit number, a
// nil / non-nil pointer.  jsonSampleEv is its projection for the trace: numbers that do not fit a TLC integer and
// floats travel as text.
type jsonNest struct {
	K []string `json:"k"`
	E struct{} `json:"e"`
}
type jsonExtra struct {
	M    map[string]int `json:"m"`
	Fl   float64        `json:"fl"`
	Ok   bool           `json:"ok"`
	Nest jsonNest       `json:"nest"`
	B    []byte         `json:"b"`
	U    uint64         `json:"u"`
	P    *int           `json:"p"`
}
type jsonSample struct {
	absSample
	X *jsonExtra `json:"x,omitempty"`
}
type jsonExtraEv struct {
	M  map[string]int `json:"m"`
	Fl string         `json:"fl"`
	Ok bool           `json:"ok"`
	K  []string       `json:"k"`
	B  string         `json:"b"`
	U  string         `json:"u"`
	P  string         `json:"p"`
}
type jsonSampleEv struct {
	absSample
	X *jsonExtraEv `json:"x,omitempty"`
}

func (js jsonSample) project() jsonSampleEv {
	ev := jsonSampleEv{absSample: js.absSample}
	if js.X != nil {
		x := js.X
		p := "nil"
		if x.P != nil {
			p = strconv.Itoa(*x.P)
		}
		m := x.M
		if m == nil {
			m = map[string]int{}
		}
		k := x.Nest.K
		if k == nil {
			k = []string{}
		}
		ev.X = &jsonExtraEv{M: m, Fl: strconv.FormatFloat(x.Fl, 'g', -1, 64), Ok: x.Ok, K: k,
			B: fmt.Sprintf("%x", x.B), U: strconv.FormatUint(x.U, 10), P: p}
	}
	return ev
}

func genExtra(r *rand.Rand) *jsonExtra {
	x := &jsonExtra{M: map[string]int{}}
	keys := []string{"b", "a", "key with blank", "\"q\"", "ü", "z\n", "0"}
	for n := r.Intn(4); n > 0; n-- {
		x.M[keys[r.Intn(len(keys))]] = r.Intn(2000) - 1000
	}
	x.Fl = []float64{0, 0.5, -1.25, 3.125, 123456.5, 0.015625, -0.000001, 42}[r.Intn(8)]
	x.Ok = r.Intn(2) == 0
	x.Nest.K = []string{}
	for n := r.Intn(3); n > 0; n-- {
		x.Nest.K = append(x.Nest.K, []string{"", "x", "two\nlines", "tab\there", "]", "\u2029"}[r.Intn(6)])
	}
	x.B = make([]byte, r.Intn(5))
	r.Read(x.B)
	x.U = []uint64{0, 1, 1 << 53, math.MaxUint64, 4294967296}[r.Intn(5)]
	if r.Intn(2) == 0 {
		v := r.Intn(100) - 50
		x.P = &v
	}
	return x
}

func (cfg aggRun) sample(r *rand.Rand, g, i int) (interface{}, core.Sample) {
	a := genSample(r, g, i)
	if cfg.kind == "log" || cfg.kind == "discard" {
		return a, &tokSample{G: g, I: i, returned: tokCounter(cfg.run)}
	}
	if cfg.kind == "phout" {
		// what an ammo file can carry: a TAB inside a uri / uripost / raw tag, any of TAB, LF, CR in a JSON ammo tag
		if r.Intn(8) == 0 {
			a.TagP = [][]string{{a.Tag, "<TAB>", "x"}, {"<TAB>"}, {"a", "<LF>", "b"}, {a.Tag, "<CR>", "<LF>"}, {"<LF>"}, {"k", "<CR>"}}[r.Intn(6)]
			a.Tag = ""
		}
		return a, realSample(a)
	}
	// jsonlines must stay one value per line whatever the strings contain
	if r.Intn(6) == 0 {
		a.Tag += []string{"\n", "\t", "line1\nline2", "\"", "\\", "\r\n", "\u2028", "}{", "<&>"}[r.Intn(9)]
	}
	js := jsonSample{absSample: a}
	if r.Intn(3) == 0 {
		js.X = genExtra(r)
	}
	return js.project(), js
}

func emitRunEnd(w *vt.Writer, cfg aggRun, err error, timeout bool) {
	ev := map[string]interface{}{"ev": "RunEnd", "run": cfg.run, "err": "", "dropped": 0, "timeout": timeout}
	if err != nil {
		var d *aggregator.SomeSamplesDropped
		if errors.As(err, &d) {
			ev["dropped"] = vt.Small(d.Dropped)
			// the drop error is the only acceptable one; anything joined to it shows up here
			if err.Error() != d.Error() {
				ev["err"] = err.Error()
			}
		} else {
			ev["err"] = err.Error()
		}
	}
	w.Emit(ev)
}

func runDirect(cfg aggRun, w *vt.Writer, seed int64) {
	w.Emit(map[string]interface{}{"ev": "Run", "run": cfg.run, "kind": cfg.kind, "ids": cfg.ids, "k": cfg.k,
		"q": cfg.q, "flush_ms": cfg.flushMs, "via": cfg.via, "mode": cfg.mode, "fault": cfg.fault, "fail_at": cfg.failAt,
		"build": cfg.build, "shape": cfg.shape, "type": cfg.typ, "sink": cfg.sinkForm})
	a, content, drain := buildAggregator2(cfg, w)
	ctx, cancel := context.WithCancel(context.Background())
	defer cancel()
	done := make(chan error, 1)
	logger := zap.NewNop()
	if cfg.kind == "log" {
		logger = zap.New(logCore{cfg.run, w})
	}
	startRun := func() { go func() { done <- a.Run(ctx, core.AggregatorDeps{Log: logger}) }() }
	// mode "late": Run starts only after every report was made and the context was cancelled
	// (core.Aggregator: "Report MAY be called before Aggregator Run"): everything is still queued
	// when Run sees ctx.Done().  Other modes: Run is started first.
	if cfg.mode != "late" {
		startRun()
	}
	var wg sync.WaitGroup
	gate := make(chan struct{})
	var ready sync.WaitGroup
	for g := 1; g <= cfg.k; g++ {
		wg.Add(1)
		ready.Add(1)
		go func(g int) {
			defer wg.Done()
			r := rand.New(rand.NewSource(seed*1000 + int64(g)))
			if cfg.mode == "dropstress" {
				// n reports of ONE sample per goroutine, fired at the same time against a tiny queue:
				// thousands of concurrent drops, all of which must be counted (one bulk event per goroutine)
				abs, s := cfg.sample(r, g, 1)
				w.Emit(map[string]interface{}{"ev": "Reports", "run": cfg.run, "g": g, "n": cfg.per[g-1], "s": abs})
				ready.Done()
				<-gate
				for i := 0; i < cfg.per[g-1]; i++ {
					a.Report(s)
				}
				return
			}
			if cfg.mode == "burst" {
				// all goroutines report in a tight loop at the same time; the reports are logged beforehand
				var ss []core.Sample
				for i := 1; i <= cfg.per[g-1]; i++ {
					abs, s := cfg.sample(r, g, i)
					w.Emit(map[string]interface{}{"ev": "Report", "run": cfg.run, "g": g, "i": i, "s": abs})
					ss = append(ss, s)
				}
				ready.Done()
				<-gate
				for _, s := range ss {
					a.Report(s)
				}
				return
			}
			ready.Done()
			for i := 1; i <= cfg.per[g-1]; i++ {
				abs, s := cfg.sample(r, g, i)
				// logged BEFORE the call: a line can reach the sink before Report returns
				w.Emit(map[string]interface{}{"ev": "Report", "run": cfg.run, "g": g, "i": i, "s": abs})
				a.Report(s)
				if cfg.mode == "normal" && r.Intn(4) == 0 {
					time.Sleep(time.Duration(r.Intn(300)) * time.Microsecond)
				}
			}
		}(g)
	}
	ready.Wait()
	close(gate)
	reported := make(chan struct{})
	go func() { wg.Wait(); close(reported) }()
	select {
	case <-reported:
	case <-time.After(60 * time.Second):
		// only possible when Report blocks although it must not (discard; log / phout with room in the queue)
		w.Emit(map[string]interface{}{"ev": "ReportBlocked", "run": cfg.run})
		return
	}
	if cfg.delayUs > 0 && cfg.mode != "late" {
		time.Sleep(time.Duration(cfg.delayUs) * time.Microsecond)
	}
	w.Emit(map[string]interface{}{"ev": "Cancel", "run": cfg.run})
	cancel()
	if cfg.mode == "late" {
		startRun()
	}
	select {
	case err := <-done:
		if drain != nil {
			drain() // standard stream: everything Run handed over before it returned, then "StdDrained"
		}
		emitRunEnd(w, cfg, err, false)
	case <-time.After(60 * time.Second):
		emitRunEnd(w, cfg, nil, true)
	}
	if content != nil {
		n, partial := content()
		w.Emit(map[string]interface{}{"ev": "Content", "run": cfg.run, "lines": n, "partial": partial})
	}
	if cfg.kind == "discard" {
		w.Emit(map[string]interface{}{"ev": "Returned", "run": cfg.run, "n": vt.Small(atomic.LoadInt64(tokCounter(cfg.run)))})
	}
}

// ---------------------------------------------------------------- engine runs (mock provider/gun, real aggregator)

type mockProvider struct {
	mu        sync.Mutex
	left      int
	failAfter int           // > 0: Run fails once that many ammo were acquired (C05 plan "prov-mid-run")
	failNow   chan struct{} // closed at that moment
	acquired  int
}

var errProviderMidRun = errors.New("ammo source broke mid-run")

func (p *mockProvider) Run(ctx context.Context, _ core.ProviderDeps) error {
	if p.failAfter > 0 {
		select {
		case <-p.failNow:
			return errProviderMidRun
		case <-ctx.Done():
			return nil
		}
	}
	<-ctx.Done()
	return nil
}
func (p *mockProvider) Acquire() (core.Ammo, bool) {
	p.mu.Lock()
	defer p.mu.Unlock()
	if p.left == 0 {
		return nil, false
	}
	p.left--
	p.acquired++
	if p.failAfter > 0 && p.acquired == p.failAfter {
		close(p.failNow)
	}
	return p.left, true
}
func (p *mockProvider) Release(core.Ammo) {}

type mockGun struct {
	cfg      aggRun
	w        *vt.Writer
	g        int
	i        int
	r        *rand.Rand
	aggr     core.Aggregator
	returned *int64 // Report calls that have returned (all guns of the run)
	// via "hang": the shot number hangAt does not come back until the driver closes release; the gun does not
	// watch any context (a server that does not answer, a gun with a long timeout of its own)
	hangAt  int
	hung    *int64
	release chan struct{}
}

func (g *mockGun) Bind(a core.Aggregator, deps core.GunDeps) error {
	g.aggr = a
	g.g = deps.InstanceID + 1
	return nil
}
func (g *mockGun) Shoot(core.Ammo) {
	g.i++
	abs, s := g.cfg.sample(g.r, g.g, g.i)
	if g.cfg.via == "hang" && g.i == g.hangAt {
		atomic.AddInt64(g.hung, 1)
		<-g.release
	}
	if g.cfg.via == "staged" {
		time.Sleep(time.Duration(500+g.r.Intn(2500)) * time.Microsecond) // a slow shot: others end meanwhile
	} else if g.cfg.via != "engine" || g.cfg.schedEnd() {
		time.Sleep(time.Duration(20+g.r.Intn(180)) * time.Microsecond) // the shot
	}
	g.w.Emit(map[string]interface{}{"ev": "Report", "run": g.cfg.run, "g": g.g, "i": g.i, "s": abs})
	g.aggr.Report(s)
	atomic.AddInt64(g.returned, 1)
	// the call has returned: the sample is in the queue (or counted as dropped) from here on
	g.w.Emit(map[string]interface{}{"ev": "ReportRet", "run": g.cfg.run, "g": g.g, "i": g.i, "s": abs})
}

// engine hooks (core/engine/verif_on.go): the pool life-cycle events of the run, written by the await
// goroutine itself, merged into the same trace as the report / line events (pool id = "r<run>")
var hookWriter *vt.Writer

func hookSink(pool string, seq int64, ev string, n int, err error) {
	run, perr := strconv.Atoi(strings.TrimPrefix(pool, "r"))
	if perr != nil || hookWriter == nil {
		return
	}
	hookWriter.Emit(map[string]interface{}{"ev": "Hook", "run": run, "seq": vt.Small(seq), "hook": ev, "n": n,
		"err": fmt.Sprint(err), "ooa": engine.VerifIsOutOfAmmo(err)})
}

// engine runs end either because the ammo runs out or (every other run) because the shared RPS schedule
// is exhausted while ammo is left (C05 shapes out-of-ammo / sched-end)
func (cfg aggRun) schedEnd() bool {
	return (cfg.via == "engine" || cfg.via == "staged") && cfg.run%2 == 0
}

func runEngine(cfg aggRun, w *vt.Writer, seed int64) {
	w.Emit(map[string]interface{}{"ev": "Run", "run": cfg.run, "kind": cfg.kind, "ids": cfg.ids, "k": cfg.k,
		"q": cfg.q, "flush_ms": cfg.flushMs, "via": cfg.via, "mode": cfg.via, "fault": "", "fail_at": 0,
		"build": cfg.build, "shape": cfg.shape, "type": cfg.typ, "sink": cfg.sinkForm})
	a, content := buildAggregator(cfg, w)
	rc := &runCapture{a, make(chan error, 1)}
	total := 0
	for _, n := range cfg.per {
		total += n
	}
	var gunSeq, returned, hung int64
	release := make(chan struct{})
	var mu sync.Mutex
	if cfg.via != "engine" && cfg.via != "staged" {
		total = 2000 // the run is stopped by the cancel / the provider failure, not by the end of ammo
	}
	// via "staged": the start-up schedule is once(k), a long pause, once(1): it has NOT finished when the first
	// instance runs out of ammo (resp. the shared schedule runs dry) while others are in the middle of a slow
	// shot; that must stop the instance START only, never the run context of aggregator and instances
	startup := schedule.NewOnce(int64(cfg.k))
	if cfg.via == "staged" {
		startup = schedule.NewComposite(schedule.NewOnce(int64(cfg.k)), schedule.NewConst(0, 3*time.Second), schedule.NewOnce(1))
	}
	prov := &mockProvider{left: total}
	newSched := func() (core.Schedule, error) { return schedule.NewUnlimited(time.Hour), nil }
	if cfg.schedEnd() {
		tokens := int64(total)
		prov.left = total + cfg.k + 3
		newSched = func() (core.Schedule, error) { return schedule.NewOnce(tokens), nil }
	}
	if cfg.via == "provfail" {
		prov.failAfter, prov.failNow = cfg.failAfter, make(chan struct{})
	}
	pool := engine.InstancePoolConfig{
		ID:         fmt.Sprintf("r%d", cfg.run),
		Provider:   prov,
		Aggregator: rc,
		NewGun: func() (core.Gun, error) {
			mu.Lock()
			gunSeq++
			n := gunSeq
			mu.Unlock()
			// via "hang": instance n makes per[n-1] reports, its next shot hangs
			return &mockGun{cfg: cfg, w: w, r: rand.New(rand.NewSource(seed*1000 + n)), returned: &returned,
				hangAt: cfg.per[(n-1)%int64(len(cfg.per))] + 1, hung: &hung, release: release}, nil
		},
		RPSPerInstance:  false,
		NewRPSSchedule:  newSched,
		StartupSchedule: startup,
	}
	m := engine.Metrics{Request: &monitoring.Counter{}, Response: &monitoring.Counter{},
		InstanceStart: &monitoring.Counter{}, InstanceFinish: &monitoring.Counter{}}
	e := engine.New(zap.NewNop(), m, engine.Config{Pools: []engine.InstancePoolConfig{pool}})
	ctx, cancel := context.WithCancel(context.Background())
	defer cancel()
	res := make(chan error, 1)
	go func() { res <- e.Run(ctx) }()
	var engErr error
	timeout := false
	if cfg.via == "cancel" {
		// the run is cancelled from outside at a seeded instant (what SIGINT does, in process):
		// Engine.Run returns at once, Engine.Wait() waits for the started tasks
		time.Sleep(time.Duration(cfg.delayUs) * time.Microsecond)
		before := atomic.LoadInt64(&returned) // read BEFORE the cancel: all of them were made before it
		w.Emit(map[string]interface{}{"ev": "Cancel", "run": cfg.run, "returned_before": vt.Small(before)})
		cancel()
		// from here on the run context IS done: an instance reports at most the shot it has in flight
		w.Emit(map[string]interface{}{"ev": "Cancelled", "run": cfg.run})
	}
	var aggErr error
	aggSeen := false
	if cfg.via == "hang" {
		// Every instance is inside a shot that does not come back (Shutdown!Hangs); everything reported so far has
		// returned.  Then the run is cancelled from outside (what the SIGINT / SIGTERM arm of cli.go does).  The
		// aggregator runs on the run context: it has to drain, flush, close and RETURN now - cli.go gives up
		// waiting for the hung shots after 3 s / 30 s and exits, whatever is still in memory then is lost.
		// Recorded: AggReturned when the aggregator's Run has returned, Release when the driver lets the shots come
		// back.  TracePoolAgg demands AggReturned BEFORE Release.  The wait is one-sided: a correct aggregator
		// returns within milliseconds, the driver is patient for 30 s.
		dead := time.Now().Add(60 * time.Second)
		for atomic.LoadInt64(&hung) < int64(cfg.k) && time.Now().Before(dead) {
			time.Sleep(200 * time.Microsecond)
		}
		if atomic.LoadInt64(&hung) < int64(cfg.k) {
			w.Emit(map[string]interface{}{"ev": "Machinery", "run": cfg.run, "what": "hang run: not every instance reached its hanging shot within 60 s"})
		}
		before := atomic.LoadInt64(&returned)
		w.Emit(map[string]interface{}{"ev": "Cancel", "run": cfg.run, "returned_before": vt.Small(before), "hung": vt.Small(atomic.LoadInt64(&hung))})
		cancel()
		w.Emit(map[string]interface{}{"ev": "Cancelled", "run": cfg.run})
		select {
		case aggErr = <-rc.done:
			aggSeen = true
			w.Emit(map[string]interface{}{"ev": "AggReturned", "run": cfg.run})
		case <-time.After(30 * time.Second):
		}
		w.Emit(map[string]interface{}{"ev": "Release", "run": cfg.run})
		close(release)
	}
	select {
	case engErr = <-res:
	case <-time.After(60 * time.Second):
		timeout = true
	}
	if !timeout {
		// Engine.Wait(): all started tasks have finished (also after a successful Run: onWaitDone is
		// called right after awaitErr is closed)
		waited := make(chan struct{})
		go func() { e.Wait(); close(waited) }()
		select {
		case <-waited:
		case <-time.After(60 * time.Second):
			timeout = true
		}
	}
	// the engine cancelled the aggregator itself (all instances awaited); Engine.Run returning nil
	// implies the aggregator's Run was awaited
	w.Emit(map[string]interface{}{"ev": "EngineEnd", "run": cfg.run, "err": fmt.Sprint(engErr), "timeout": timeout})
	if aggSeen {
		rc.done <- aggErr
	}
	select {
	case err := <-rc.done:
		emitRunEnd(w, cfg, err, false)
	case <-time.After(60 * time.Second):
		emitRunEnd(w, cfg, nil, true)
	}
	if content != nil {
		n, partial := content()
		w.Emit(map[string]interface{}{"ev": "Content", "run": cfg.run, "lines": n, "partial": partial})
	}
}

// ---------------------------------------------------------------- main

func aggSeed() int64 {
	s, _ := strconv.ParseInt(os.Getenv("VERIF_SEED"), 10, 64)
	if s == 0 {
		s = 1
	}
	return s
}

func aggMain(args []string) {
	fs := flag.NewFlagSet("agg", flag.ExitOnError)
	out := fs.String("out", "agg.ndjson", "trace file")
	runs := fs.Int("runs", 300, "direct runs")
	engRuns := fs.Int("engine", 20, "engine runs that end by themselves")
	cancelRuns := fs.Int("cancel", 20, "engine runs cancelled from outside at a seeded instant")
	stressRuns := fs.Int("dropstress", 4, "jsonlines runs with thousands of concurrent drops")
	provRuns := fs.Int("provfail", 0, "engine runs whose provider fails mid-run")
	otherRuns := fs.Int("other", 0, "direct runs of the log and discard aggregators")
	stagedRuns := fs.Int("staged", 0, "engine runs whose staged start-up is unfinished at out-of-ammo / schedule end")
	faultRuns := fs.Int("fault", 0, "direct runs whose sink fails (write error, partial write, short count, close error)")
	hangRuns := fs.Int("hang", 0, "engine runs cancelled from outside while every instance is inside a shot that does not come back")
	par := fs.Int("par", 4, "runs in flight")
	fs.Parse(args)
	seed := aggSeed()
	w := vt.Create(*out)
	defer w.Close()
	hookWriter = w
	engine.VerifSink = hookSink
	r := rand.New(rand.NewSource(seed))
	qs := []int{1, 1, 2, 3, 4, 8, 16, 64}
	flushes := []int{1, 1, 2, 5, 20, 100, 1000}
	var cfgs []aggRun
	nofault := *runs + *engRuns + *cancelRuns + *stressRuns + *provRuns + *otherRuns + *stagedRuns
	for n := 0; n < nofault+*faultRuns+*hangRuns; n++ {
		cfg := aggRun{run: n + 1, via: "direct"}
		hang := n >= nofault+*faultRuns // appended after everything else: the earlier runs keep their parameters
		faulty := n >= nofault && !hang
		staged := n >= *runs+*engRuns+*cancelRuns+*stressRuns+*provRuns+*otherRuns && !faulty
		other := n >= *runs+*engRuns+*cancelRuns+*stressRuns+*provRuns && !staged && !faulty
		if hang {
			cfg.via = "hang"
		} else if staged {
			cfg.via = "staged"
		} else if other || faulty {
			cfg.via = "direct"
		} else if n >= *runs+*engRuns+*cancelRuns+*stressRuns {
			cfg.via = "provfail"
		} else if n >= *runs+*engRuns+*cancelRuns {
			cfg.via = "direct"
		} else if n >= *runs+*engRuns {
			cfg.via = "cancel"
		} else if n >= *runs {
			cfg.via = "engine"
		}
		if r.Intn(2) == 0 {
			cfg.kind = "phout"
		} else {
			cfg.kind = "jsonlines"
		}
		cfg.ids = r.Intn(2) == 0
		cfg.k = 1 + r.Intn(8)
		maxPer := 12
		if r.Intn(10) == 0 {
			maxPer = 40 // enough bytes to make the 4 KiB buffer spill
		}
		for g := 0; g < cfg.k; g++ {
			cfg.per = append(cfg.per, r.Intn(maxPer+1))
		}
		cfg.q = qs[r.Intn(len(qs))]
		cfg.flushMs = flushes[r.Intn(len(flushes))]
		switch r.Intn(4) {
		case 0:
			cfg.delayUs = 0
		case 1:
			cfg.delayUs = r.Intn(200)
		case 2:
			cfg.delayUs = r.Intn(3000)
		default:
			cfg.delayUs = r.Intn(12000)
		}
		cfg.mode = "normal"
		if cfg.via == "direct" {
			switch r.Intn(6) {
			case 0:
				cfg.mode = "late"
				if cfg.kind == "phout" {
					// a blocking Report needs room: the queue holds the whole run
					if r.Intn(2) == 0 {
						cfg.q = 64
					}
					room := cfg.q
					for g := range cfg.per {
						if cfg.per[g] > room {
							cfg.per[g] = room
						}
						room -= cfg.per[g]
					}
				}
			case 1:
				cfg.mode = "burst"
				for g := range cfg.per {
					cfg.per[g] = 20 + r.Intn(21)
				}
			}
		}
		if n >= *runs+*engRuns+*cancelRuns && cfg.via == "direct" && !other && !faulty {
			cfg.mode, cfg.kind, cfg.k, cfg.q = "dropstress", "jsonlines", 8, 1+r.Intn(2)
			cfg.per = nil
			for g := 0; g < cfg.k; g++ {
				// long enough (milliseconds) that the goroutines really overlap after the gate opens: with a few
				// thousand reports each one was often finished before the next was scheduled on a quiet machine
				cfg.per = append(cfg.per, 40000+r.Intn(20000))
			}
		}
		if other {
			// log: blocking queue of 128, written through to the logger; discard: nothing at all.
			// late mode = every report is made before Run starts: discard must not block, log has room for 128
			cfg.kind = []string{"log", "discard", "log", "discard", "test", "test"}[n%6]
			cfg.mode = []string{"normal", "late", "burst"}[r.Intn(3)]
			cfg.q = 128
			room := 128
			for g := range cfg.per {
				if cfg.mode == "burst" {
					cfg.per[g] = 10 + r.Intn(20)
				}
				if cfg.kind == "log" && cfg.mode == "late" {
					if cfg.per[g] > room {
						cfg.per[g] = room
					}
					room -= cfg.per[g]
				}
			}
		}
		if staged {
			// k >= 2 instances at once, ammo (resp. tokens) not a multiple of k: one instance ends while another
			// has taken the last ammo and is shooting
			cfg.k = 2 + r.Intn(3)
			total := cfg.k*(1+r.Intn(3)) + 1 + r.Intn(cfg.k-1)
			cfg.per = []int{total}
			if cfg.kind == "phout" {
				cfg.q = 4096
			} else if cfg.q <= total+cfg.k+3 {
				cfg.q = total + cfg.k + 4 // no drops: the engine's own result stays nil
			}
		}
		if cfg.via == "engine" {
			// no drops possible: the queue holds every report of the run
			total := 0
			for _, p := range cfg.per {
				total += p
			}
			if cfg.kind == "jsonlines" && cfg.q < total {
				cfg.q = total + 1
			}
		}
		if faulty {
			// the sink fails at its failAt-th Write (1 = the very first byte that leaves the buffer; for a small run
			// that is the FINAL flush) or at Close.  Run may return early: a blocking Report must find room.
			cfg.fault = []string{"err", "partial", "short", "close", "err", "partial"}[n%6]
			cfg.failAt = 1 + []int{0, 0, 1, 2, 5}[r.Intn(5)]
			if cfg.kind == "phout" {
				cfg.q = 4096
			}
			if cfg.mode == "burst" || r.Intn(3) == 0 {
				for g := range cfg.per {
					cfg.per[g] = 20 + r.Intn(40) // several spills of the 4 KiB buffer
				}
			}
			if cfg.mode == "late" && cfg.kind == "phout" {
				cfg.mode = "normal"
			}
		}
		if cfg.via == "hang" {
			// the hung shots report when they are released, after the aggregator has returned: a blocking Report must
			// find room.  Every third run: a flush interval no timer of cli.go would wait for (1 h; the encoder
			// buffer is written by the final flush only), every third: none at all
			if cfg.kind == "phout" {
				cfg.q = 4096
			}
			cfg.flushMs = []int{cfg.flushMs, 3600000, 0}[n%3]
		}
		if cfg.via == "cancel" || cfg.via == "provfail" {
			// a blocking Report after the aggregator has returned must find room (default queue: 256 K)
			if cfg.kind == "phout" {
				cfg.q = 4096
			}
			cfg.delayUs = 200 + r.Intn(6000)
			cfg.failAfter = 1 + r.Intn(150)
		}
		// how the aggregator is made (no seeded choice is consumed: earlier runs keep their parameters)
		cfg.build, cfg.shape, cfg.typ, cfg.sinkForm = "ctor", "", cfg.kind, ""
		if cfg.kind == "jsonlines" {
			cfg.sinkForm = "buffer"
			if n%4 == 2 && cfg.via == "direct" && cfg.fault == "" && cfg.mode != "dropstress" {
				cfg.sinkForm = "membuffer"
			}
		}
		useFactory := n%2 == 1
		if other {
			useFactory = (n/2)%2 == 1 // kind alternates with n there
		}
		if useFactory && cfg.mode != "dropstress" && cfg.kind != "test" {
			cfg.build = "factory"
			cfg.shape = []string{"viper", "yaml"}[(n/2+n/12)%2]
			if cfg.kind == "jsonlines" {
				cfg.typ = []string{"jsonlines", "json"}[(n/4)%2]
				cfg.sinkForm = []string{"file", "path", "stdout", "file", "path", "stderr"}[(n/2)%6]
				if (cfg.via != "direct" || cfg.fault != "") && (cfg.sinkForm == "stdout" || cfg.sinkForm == "stderr") {
					cfg.sinkForm = "file"
				}
			}
		}
		cfgs = append(cfgs, cfg)
	}
	sem := make(chan struct{}, *par)
	var wg sync.WaitGroup
	hangSem := make(chan struct{}, 16) // hang runs mostly wait (in a broken tree: 30 s each): a pool of their own
	for _, cfg := range cfgs {
		wg.Add(1)
		slots := sem
		if cfg.via == "hang" {
			slots = hangSem
		}
		slots <- struct{}{}
		go func(cfg aggRun) {
			defer wg.Done()
			defer func() { <-slots }()
			if cfg.via != "direct" {
				runEngine(cfg, w, seed*100000+int64(cfg.run))
			} else {
				runDirect(cfg, w, seed*100000+int64(cfg.run))
			}
		}(cfg)
	}
	wg.Wait()
}

// ---------------------------------------------------------------- TLC-generated cases (M2)

func aggCasesMain(args []string) {
	fs := flag.NewFlagSet("aggcases", flag.ExitOnError)
	in := fs.String("in", "", "cases (ndjson written by TLC)")
	out := fs.String("out", "aggcases.ndjson", "observations")
	fs.Parse(args)
	f, err := os.Open(*in)
	if err != nil {
		panic(err)
	}
	defer f.Close()
	w := vt.Create(*out)
	defer w.Close()
	sc := bufio.NewScanner(f)
	sc.Buffer(make([]byte, 1<<20), 1<<26)
	for sc.Scan() {
		if len(bytes.TrimSpace(sc.Bytes())) == 0 {
			continue
		}
		var c struct {
			ID  int       `json:"id"`
			Ids bool      `json:"ids"`
			S   absSample `json:"s"`
		}
		if err := json.Unmarshal(sc.Bytes(), &c); err != nil {
			panic(fmt.Sprintf("case file: %v: %s", err, sc.Text()))
		}
		mem := afero.NewMemMapFs()
		conf := netsample.DefaultPhoutConfig()
		conf.Destination = "/phout.log"
		conf.ID = c.Ids
		conf.SampleQueueSize = 1
		conf.Buffer.BufferSize = 4096
		a, err := netsample.NewPhout(mem, conf)
		if err != nil {
			panic(err)
		}
		ctx, cancel := context.WithCancel(context.Background())
		done := make(chan error, 1)
		go func() { done <- a.Run(ctx, core.AggregatorDeps{Log: zap.NewNop()}) }()
		a.Report(realSample(c.S))
		cancel()
		runErr := <-done
		b, err := afero.ReadFile(mem, "/phout.log")
		if err != nil {
			panic(err)
		}
		obs := map[string]interface{}{"id": c.ID, "err": fmt.Sprint(runErr), "raw": string(b)}
		if len(b) > 0 && b[len(b)-1] == '\n' && bytes.Count(b, []byte{'\n'}) == 1 {
			if ev, ok := parsePhout(0, b[:len(b)-1]).(map[string]interface{}); ok && ev["ev"] == "Line" {
				obs["c"] = ev["c"]
			}
		}
		w.Emit(obs)
	}
}
