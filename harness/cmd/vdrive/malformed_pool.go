package main

// C13, pool-level cases: a complete pandora configuration file with two pools - the first well-formed, the
// second with ONE defect in its provider / gun / schedule section (or a defect of the `pools` list itself) -
// is read the way the CLI reads it (cli.VerifReadConfig = viper + readConfig + config.DecodeAndValidate, with
// all real plugins registered) and, if that succeeds, run by a real engine.Engine against a local HTTP target:
//
//	construct  cli.readConfig returns a config            (log.Fatal = rejected; what it wrote is kept)
//	run        engine.Run returns nil and the target was shot at
//
// Recorded next to the outcome: whether the error text names the defective pool ("pools[1]"), and how many
// requests the target received (a rejected configuration must not start shooting).  TLC decides.

import (
	"context"
	"fmt"
	"net/http"
	"net/http/httptest"
	"os"
	"path/filepath"
	"strings"
	"sync/atomic"
	"time"

	"github.com/spf13/afero"
	"github.com/yandex/pandora/cli"
	"github.com/yandex/pandora/core/engine"
	"github.com/yandex/pandora/lib/monitoring"
	"go.uber.org/zap"
)

const mfPoolOK = `  - id: pool-%d
    gun:
      type: http
      target: %s
    ammo:
      type: uri
      file: /pool/ammo.uri
      limit: 2
    result:
      type: discard
    rps: {type: once, times: 2}
    startup: {type: once, times: 1}
`

// the second pool, by class: old -> new on the well-formed text (or the whole `pools` value)
func mfRenderPool(cls, target string) string {
	good := func(i int) string { return fmt.Sprintf(mfPoolOK, i, target) }
	bad := good(1)
	rep := func(old, new string) {
		if !strings.Contains(bad, old) {
			machinery("pool class %s: text does not contain %q", cls, old)
		}
		bad = strings.Replace(bad, old, new, 1)
	}
	head := "pools:\n" + good(0)
	switch cls {
	case "p_none":
	case "p_ammo_wrongtype":
		rep("limit: 2", "limit: many")
	case "p_ammo_listvalue":
		rep("limit: 2", "limit: [1, 2]")
	case "p_ammo_neg":
		rep("limit: 2", "limit: -1")
	case "p_ammo_negsize":
		rep("limit: 2", "limit: 2\n      max_ammo_size: -5")
	case "p_ammo_unknown_type":
		rep("type: uri", "type: nosuch")
	case "p_ammo_empty_type":
		rep("type: uri", "type: ''")
	case "p_ammo_unknown_key":
		rep("limit: 2", "limit: 2\n      nosuchkey: 1")
	case "p_ammo_scalar":
		rep("    ammo:\n      type: uri\n      file: /pool/ammo.uri\n      limit: 2\n", "    ammo: 5\n")
	case "p_ammo_null":
		rep("    ammo:\n      type: uri\n      file: /pool/ammo.uri\n      limit: 2\n", "    ammo:\n")
	case "p_ammo_missing":
		rep("    ammo:\n      type: uri\n      file: /pool/ammo.uri\n      limit: 2\n", "")
	case "p_ammo_nofile":
		rep("file: /pool/ammo.uri", "file: /pool/nosuch.uri")
	case "p_gun_unknown_type":
		rep("type: http\n", "type: nosuchgun\n")
	case "p_gun_wrongtype":
		rep("target: "+target, "target: "+target+"\n      dial: {timeout: [1]}")
	case "p_gun_unknown_key":
		rep("target: "+target, "target: "+target+"\n      nosuchkey: 1")
	case "p_gun_scalar":
		rep("    gun:\n      type: http\n      target: "+target+"\n", "    gun: 5\n")
	case "p_gun_badtarget":
		rep("target: "+target, "target: 'not a host:port:at all'")
	case "p_rps_neg":
		rep("rps: {type: once, times: 2}", "rps: {type: once, times: -2}")
	case "p_rps_wrongtype":
		rep("rps: {type: once, times: 2}", "rps: {type: line, from: a, to: b, duration: 1s}")
	case "p_rps_negduration":
		rep("rps: {type: once, times: 2}", "rps: {type: const, ops: 5, duration: -1s}")
	case "p_startup_neg":
		rep("startup: {type: once, times: 1}", "startup: {type: once, times: -1}")
	case "p_result_unknown_type":
		rep("type: discard", "type: nosuchsink")
	case "p_pool_scalar":
		bad = "  - 5\n"
	case "p_pool_null":
		bad = "  -\n"
	case "p_pool_list":
		bad = "  - [1, 2]\n"
	case "p_pools_scalar":
		return "pools: 5\n"
	case "p_pools_map":
		return "pools:\n  a: 1\n"
	case "p_pools_missing":
		return "log:\n  level: error\n"
	case "p_pools_null":
		return "pools:\n"
	default:
		machinery("no renderer for pool class %q", cls)
	}
	return head + bad
}

func mfRunPoolCase(c mfCase) mfLine {
	var hits int64
	srv := httptest.NewServer(http.HandlerFunc(func(w http.ResponseWriter, r *http.Request) {
		atomic.AddInt64(&hits, 1)
		w.WriteHeader(200)
	}))
	defer srv.Close()
	target := strings.TrimPrefix(srv.URL, "http://")
	afero.WriteFile(mfFS, "/pool/ammo.uri", []byte("/a\n/b\n"), 0o644)
	dir, err := os.MkdirTemp("", "vdrive-c13-pool-")
	if err != nil {
		machinery("%v", err)
	}
	defer os.RemoveAll(dir)
	text := mfRenderPool(c.Cls, target)
	cfgFile := filepath.Join(dir, "load.yaml")
	os.WriteFile(cfgFile, []byte(text), 0o644)
	// readConfig logs to the stderr of the moment it is called: give it a file, read it back
	logFile, _ := os.Create(filepath.Join(dir, "stderr.log"))
	oldStderr := os.Stderr
	os.Stderr = logFile
	var conf *cli.CliConfig
	outcome, panicText := "ok", ""
	func() {
		defer func() {
			if r := recover(); r != nil {
				if _, isExit := r.(zapExit); isExit {
					outcome = "fatal"
					return
				}
				outcome, panicText = "panic", trunc(fmt.Sprint(r), 200)
			}
		}()
		defer zap.ReplaceGlobals(zap.NewNop())
		conf = cli.VerifReadConfig([]string{cfgFile})
	}()
	os.Stderr = oldStderr
	logFile.Close()
	logged, _ := os.ReadFile(filepath.Join(dir, "stderr.log"))
	evs := []mfEvent{}
	info := map[string]interface{}{"config": text, "log": tail(string(logged), 700)}
	switch outcome {
	case "panic":
		evs = append(evs, mfEvent{"Panic", "readConfig: " + panicText})
		return mfLine{K: "case", C: &c, Evs: evs, Info: info}
	case "fatal":
		if strings.Contains(string(logged), "pools[1]") || strings.Contains(string(logged), "Pools[1]") {
			evs = append(evs, mfEvent{"Named", "pools[1]"})
		}
		if h := atomic.LoadInt64(&hits); h > 0 {
			evs = append(evs, mfEvent{"Shot", "before the configuration was rejected"})
		}
		evs = append(evs, mfEvent{"End", "rejected"})
		return mfLine{K: "case", C: &c, Evs: evs, Info: info}
	}
	evs = append(evs, mfEvent{"Stage", "construct"})
	// run the engine the way the CLI does
	m := engine.Metrics{Request: &monitoring.Counter{}, Response: &monitoring.Counter{}, InstanceStart: &monitoring.Counter{}, InstanceFinish: &monitoring.Counter{}}
	eng := engine.New(zap.NewNop(), m, conf.Engine)
	ctx, cancel := context.WithTimeout(context.Background(), 4*time.Second)
	defer cancel()
	var runErr error
	panics := make(chan string, 1)
	safely(panics, "engine.Run", func() { runErr = eng.Run(ctx) })
	select {
	case p := <-panics:
		evs = append(evs, mfEvent{"Panic", trunc(p, 200)})
		return mfLine{K: "case", C: &c, Evs: evs, Info: info}
	default:
	}
	info["run_err"] = errStr(runErr)
	info["hits"] = atomic.LoadInt64(&hits)
	if runErr != nil || ctx.Err() != nil {
		if ctx.Err() != nil {
			info["run_err"] = "engine.Run did not finish within 4 s: " + errStr(runErr)
		} else if strings.Contains(runErr.Error(), `"pool-1"`) {
			evs = append(evs, mfEvent{"Named", "pool-1"})
		}
		evs = append(evs, mfEvent{"End", "rejected"})
		return mfLine{K: "case", C: &c, Evs: evs, Info: info}
	}
	if atomic.LoadInt64(&hits) > 0 {
		evs = append(evs, mfEvent{"Stage", "run"})
	}
	evs = append(evs, mfEvent{"End", "accepted"})
	return mfLine{K: "case", C: &c, Evs: evs, Info: info}
}
