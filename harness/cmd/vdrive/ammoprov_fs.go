package main

// C08 driver, part 3: the file system the providers see.  apFs wraps the real afero fs (mem or OS) and
//   * counts the WORK done on ammo files per cell: opens, closes, rewinds (Seek to the start), Read calls, bytes;
//   * injects one fault per cell when asked to: Open fails / Close fails / the k-th Read fails / the k-th rewind fails / Stat fails.
// The driver writes the ammo files through the inner fs; only what the providers do is counted.

import (
	"errors"
	"io"
	"os"
	"sync"

	"github.com/spf13/afero"
)

type apFault struct {
	Kind string // "" | open | close | read | seek | stat | noseek (EVERY rewind fails: a source that cannot seek)
	K    int    // read: the K-th Read call of the cell fails; seek: the K-th rewind fails
}

func (f apFault) String() string {
	if f.Kind == "" {
		return ""
	}
	if f.Kind == "read" || f.Kind == "seek" {
		return f.Kind + string(rune('0'+f.K))
	}
	return f.Kind
}

var errApFault = errors.New("c08 injected file fault")

type apFsStats struct {
	Opens, Closes, Rewinds, Reads, Faults int
	Bytes                                 int64
}

type apFs struct {
	afero.Fs
	mu   sync.Mutex
	plan apFault
	st   apFsStats
}

func (f *apFs) begin(plan apFault) {
	f.mu.Lock()
	f.plan, f.st = plan, apFsStats{}
	f.mu.Unlock()
}

func (f *apFs) stats() apFsStats {
	f.mu.Lock()
	defer f.mu.Unlock()
	return f.st
}

func (f *apFs) Open(name string) (afero.File, error) {
	f.mu.Lock()
	fail := f.plan.Kind == "open"
	if fail {
		f.st.Faults++
	}
	f.mu.Unlock()
	if fail {
		return nil, errApFault
	}
	file, err := f.Fs.Open(name)
	if err != nil {
		return file, err
	}
	f.mu.Lock()
	f.st.Opens++
	f.mu.Unlock()
	return &apFile{File: file, fs: f}, nil
}

func (f *apFs) OpenFile(name string, flag int, perm os.FileMode) (afero.File, error) {
	file, err := f.Fs.OpenFile(name, flag, perm)
	if err != nil {
		return file, err
	}
	f.mu.Lock()
	f.st.Opens++
	f.mu.Unlock()
	return &apFile{File: file, fs: f}, nil
}

type apFile struct {
	afero.File
	fs *apFs
}

func (a *apFile) Read(p []byte) (int, error) {
	a.fs.mu.Lock()
	a.fs.st.Reads++
	fail := a.fs.plan.Kind == "read" && a.fs.st.Reads == a.fs.plan.K
	if fail {
		a.fs.st.Faults++
	}
	a.fs.mu.Unlock()
	if fail {
		return 0, errApFault
	}
	n, err := a.File.Read(p)
	a.fs.mu.Lock()
	a.fs.st.Bytes += int64(n)
	a.fs.mu.Unlock()
	return n, err
}

func (a *apFile) Seek(off int64, whence int) (int64, error) {
	if off == 0 && whence == io.SeekStart {
		a.fs.mu.Lock()
		a.fs.st.Rewinds++
		fail := (a.fs.plan.Kind == "seek" && a.fs.st.Rewinds == a.fs.plan.K) || a.fs.plan.Kind == "noseek"
		if fail {
			a.fs.st.Faults++
		}
		a.fs.mu.Unlock()
		if fail {
			return 0, errApFault
		}
	}
	return a.File.Seek(off, whence)
}

func (a *apFile) Close() error {
	err := a.File.Close() // the descriptor is released whatever we report
	a.fs.mu.Lock()
	a.fs.st.Closes++
	fail := a.fs.plan.Kind == "close"
	if fail {
		a.fs.st.Faults++
	}
	a.fs.mu.Unlock()
	if fail {
		return errApFault
	}
	return err
}

func (a *apFile) Stat() (os.FileInfo, error) {
	a.fs.mu.Lock()
	fail := a.fs.plan.Kind == "stat"
	if fail {
		a.fs.st.Faults++
	}
	a.fs.mu.Unlock()
	if fail {
		return nil, errApFault
	}
	return a.File.Stat()
}
