package main

// C07/C14 renderers: abstract ammo file (items + layout) -> bytes, one renderer per format.
// TRUSTED BASE.  Written to be obviously faithful to docs/eng/providers.md (uri-style, raw
// request-style, http/json) and to the phantom `uripost` format (size-prefixed body after a
// `size uri [tag]` line, in-file `[Header: value]` lines as in uri-style), and to mirror
// RenderItem of spec/AmmoFormats.tla symbol for symbol:
//
//	Blank   : lead eol
//	Header  : lead "[key: value]" trail eol
//	Entry   : uri     : lead "uri[ tag]" trail eol
//	          uripost : lead "size uri[ tag]" trail eol body [eol]
//	          raw     : lead "size[ tag]" trail eol request [eol]
//
// lead = " \t" and trail = "\t " when the item's layout has ws, eol = CRLF or LF, the blank line
// after a body is there when sep; when the file has no final newline the LAST layout terminator
// of the last item is left out (never a byte of a body).

import (
	"bytes"
	"encoding/json"
	"strconv"
	"strings"
)

type afLay struct {
	CRLF  bool   `json:"crlf"`
	WS    bool   `json:"ws"`
	Sep   bool   `json:"sep"`
	Final bool   `json:"final"`
	Style string `json:"style"`
}

type afEntry struct {
	Method  string     `json:"method"`
	URI     string     `json:"uri"`
	Host    string     `json:"host"`
	Headers [][]string `json:"headers"`
	Body    string     `json:"body"` // hex of the bytes, or len:sha256 prefix for long bodies (bodyKey)
	Tag     string     `json:"tag"`
	body    []byte
}

type afItem struct {
	K   string
	E   *afEntry
	Key string
	Val string
}

// traces carry long strings as strKey (the renderer works on the real ones)
func (it afItem) MarshalJSON() ([]byte, error) {
	switch it.K {
	case "E":
		e := *it.E
		e.URI, e.Tag, e.Host = strKey(e.URI), strKey(e.Tag), strKey(e.Host)
		e.Headers = make([][]string, len(it.E.Headers))
		for i, h := range it.E.Headers {
			e.Headers[i] = []string{h[0], strKey(h[1])}
		}
		return json.Marshal(map[string]interface{}{"k": "E", "e": &e})
	case "H":
		return json.Marshal(map[string]interface{}{"k": "H", "key": it.Key, "val": strKey(it.Val)})
	}
	return json.Marshal(map[string]interface{}{"k": "B"})
}

func (it *afItem) UnmarshalJSON(b []byte) error {
	var raw struct {
		K   string   `json:"k"`
		E   *afEntry `json:"e"`
		Key string   `json:"key"`
		Val string   `json:"val"`
	}
	if err := json.Unmarshal(b, &raw); err != nil {
		return err
	}
	it.K, it.E, it.Key, it.Val = raw.K, raw.E, raw.Key, raw.Val
	return nil
}

func afEol(l afLay) string {
	if l.CRLF {
		return "\r\n"
	}
	return "\n"
}

func afLead(l afLay) string {
	if l.WS {
		return " \t"
	}
	return ""
}

func afTrail(l afLay) string {
	if l.WS {
		return "\t "
	}
	return ""
}

func afHeaderLine(it afItem, l afLay) string {
	if l.WS {
		return "[ " + it.Key + " :  " + it.Val + " ]"
	}
	return "[" + it.Key + ": " + it.Val + "]"
}

func afWithTag(s, tag string) string {
	if tag != "" {
		return s + " " + tag
	}
	return s
}

// raw: the entry is a whole HTTP/1.1 request; Host line first, then the entry's headers as written.
func afRawRequest(e *afEntry) []byte {
	var b bytes.Buffer
	b.WriteString(e.Method + " " + e.URI + " HTTP/1.1\r\n")
	b.WriteString("Host: " + e.Host + "\r\n")
	for _, h := range e.Headers {
		b.WriteString(h[0] + ": " + h[1] + "\r\n")
	}
	b.WriteString("\r\n")
	b.Write(e.body)
	return b.Bytes()
}

func afWriteSized(b *bytes.Buffer, line string, payload []byte, l afLay, nf bool) {
	fin := afEol(l)
	if nf {
		fin = ""
	}
	switch {
	case l.Sep:
		b.WriteString(line + afEol(l))
		b.Write(payload)
		b.WriteString(fin)
	case len(payload) == 0:
		b.WriteString(line + fin)
	default:
		b.WriteString(line + afEol(l))
		b.Write(payload)
	}
}

// uri, uripost, raw.  lays[i] is the layout of item i (Final is a property of the file).
func afRenderText(format string, items []afItem, lays []afLay, final bool) []byte {
	var b bytes.Buffer
	for i, it := range items {
		l := lays[i]
		nf := i == len(items)-1 && !final
		fin := afEol(l)
		if nf {
			fin = ""
		}
		switch it.K {
		case "B":
			b.WriteString(afLead(l) + fin)
		case "H":
			b.WriteString(afLead(l) + afHeaderLine(it, l) + afTrail(l) + fin)
		case "E":
			e := it.E
			switch format {
			case "uri":
				b.WriteString(afLead(l) + afWithTag(e.URI, e.Tag) + afTrail(l) + fin)
			case "uripost":
				line := afWithTag(strconv.Itoa(len(e.body))+" "+e.URI, e.Tag)
				afWriteSized(&b, afLead(l)+line+afTrail(l), e.body, l, nf)
			case "raw":
				req := afRawRequest(e)
				line := afWithTag(strconv.Itoa(len(req)), e.Tag)
				afWriteSized(&b, afLead(l)+line+afTrail(l), req, l, nf)
			default:
				panic("afRenderText: format " + format)
			}
		}
	}
	return b.Bytes()
}

// http/json: one object per entry (docs sample key set; Host outside of headers; body is text).
type afJSONEnt struct {
	Tag     string            `json:"tag"`
	URI     string            `json:"uri"`
	Method  string            `json:"method"`
	Headers map[string]string `json:"headers"`
	Host    string            `json:"host"`
	Body    string            `json:"body,omitempty"`
}

func afJSONObject(e *afEntry, pretty bool, eol string) string {
	o := afJSONEnt{Tag: e.Tag, URI: e.URI, Method: e.Method, Headers: map[string]string{}, Host: e.Host, Body: string(e.body)}
	for _, h := range e.Headers {
		o.Headers[h[0]] = h[1]
	}
	var out []byte
	var err error
	if pretty {
		out, err = json.MarshalIndent(o, "", "  ")
	} else {
		out, err = json.Marshal(o)
	}
	if err != nil {
		panic(err)
	}
	return strings.ReplaceAll(string(out), "\n", eol)
}

// styles: line (one object per line), pretty (indented objects one after another),
// array / arraypretty (one JSON array of the objects).  Blank = an extra empty line between values.
func afRenderJSON(items []afItem, lays []afLay, final bool, style string) []byte {
	var b bytes.Buffer
	pretty := style == "pretty" || style == "arraypretty"
	array := style == "array" || style == "arraypretty"
	lastEntry := -1
	for i, it := range items {
		if it.K == "E" {
			lastEntry = i
		}
	}
	if array {
		b.WriteString("[" + afEol(lays[0]))
	}
	for i, it := range items {
		l := lays[i]
		nf := i == len(items)-1 && !final && !array
		fin := afEol(l)
		if nf {
			fin = ""
		}
		switch it.K {
		case "B":
			b.WriteString(afLead(l) + fin)
		case "E":
			comma := ""
			if array && i != lastEntry {
				comma = ","
			}
			b.WriteString(afLead(l) + afJSONObject(it.E, pretty, afEol(l)) + comma + afTrail(l) + fin)
		default:
			panic("afRenderJSON: item kind " + it.K)
		}
	}
	if array {
		b.WriteString("]")
		if final {
			b.WriteString(afEol(lays[len(lays)-1]))
		}
	}
	return b.Bytes()
}

func afRender(format string, items []afItem, lays []afLay, final bool, style string) []byte {
	if format == "json" {
		return afRenderJSON(items, lays, final, style)
	}
	return afRenderText(format, items, lays, final)
}
