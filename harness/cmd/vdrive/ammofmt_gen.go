package main

// C07/C14 M1: seeded random abstract ammo files of up to -maxentries entries with bodies of up to
// -maxbody random bytes (json: random valid UTF-8 text), random per-item layouts, header lines
// between the entries (uri, uripost).  Input generation only: what is expected is decided by
// TraceAmmoFormats.tla from the logged abstract file.

import (
	"fmt"
	"math/rand"
	"strconv"
	"strings"
)

var (
	afTags    = []string{"", "", "t1", "t 2", "tag-3", "a b c", "zz"}
	afMethods = []string{"GET", "POST", "PUT", "DELETE", "PATCH"}
	afHdrKeys = []string{"A", "a", "X-B", "x-b", "Accept", "User-Agent", "Cookie", "X-Req-Id", "Host", "host"}
	afSegs    = []string{"a", "buy", "p%2Fq", "x.y", "~u", "1", "index.html", "-_"}
	afQuery   = []string{"x=1", "y=2", "q=%20z", "rt=0", "station_to=7", "e=", "k=a%2Bb"}
	afValCh   = "abcXYZ019 ;=,/.*-_:]["
	afTextCh  = []rune("abc XYZ019\n\r\t\"\\{}[]:,<>&'\u00fc\u044f\u4e16\U0001F600\x00\x1f")
)

func afRandURI(r *rand.Rand) string {
	var b strings.Builder
	n := 1 + r.Intn(3)
	for i := 0; i < n; i++ {
		b.WriteString("/")
		if i < n-1 || r.Intn(3) > 0 {
			b.WriteString(afSegs[r.Intn(len(afSegs))])
		}
	}
	if q := r.Intn(3); q > 0 {
		b.WriteString("?")
		for i := 0; i < q; i++ {
			if i > 0 {
				b.WriteString("&")
			}
			b.WriteString(afQuery[r.Intn(len(afQuery))])
		}
	}
	return b.String()
}

func afRandVal(r *rand.Rand) string {
	n := r.Intn(12)
	var b strings.Builder
	for i := 0; i < n; i++ {
		b.WriteByte(afValCh[r.Intn(len(afValCh))])
	}
	return strings.TrimSpace(b.String())
}

func afRandBody(r *rand.Rand, maxBody int, text bool) []byte {
	var n int
	switch r.Intn(10) {
	case 0, 1:
		n = 0
	case 2, 3, 4, 5, 6:
		n = 1 + r.Intn(40)
	case 7, 8:
		n = 1 + r.Intn(2000)
	default:
		n = 1 + r.Intn(maxBody)
	}
	if text {
		var b strings.Builder
		for b.Len() < n {
			b.WriteRune(afTextCh[r.Intn(len(afTextCh))])
		}
		return []byte(b.String())
	}
	out := make([]byte, n)
	r.Read(out)
	if n > 0 && r.Intn(3) == 0 {
		out[0] = '['
	}
	if n > 2 && r.Intn(3) == 0 {
		out[n-1] = '\n'
	}
	return out
}

func afRandEntry(r *rand.Rand, format string, maxBody int) *afEntry {
	e := &afEntry{Method: "GET", URI: afRandURI(r), Headers: [][]string{}, Tag: afTags[r.Intn(len(afTags))]}
	switch format {
	case "uripost":
		e.Method = "POST"
		e.body = afRandBody(r, maxBody, false)
	case "raw", "json":
		e.Method = afMethods[r.Intn(len(afMethods))]
		e.Host = []string{"h1", "h2:8080", "example.com"}[r.Intn(3)]
		if e.Method != "GET" && e.Method != "DELETE" {
			e.body = afRandBody(r, maxBody, format == "json")
		}
		used := map[string]bool{}
		for i := r.Intn(4); i > 0; i-- {
			k := afHdrKeys[r.Intn(len(afHdrKeys)-2)] // no Host among the entry's own headers
			if used[strings.ToLower(k)] {
				continue
			}
			used[strings.ToLower(k)] = true
			e.Headers = append(e.Headers, []string{k, afRandVal(r)})
		}
		if format == "raw" && len(e.body) > 0 {
			e.Headers = append(e.Headers, []string{"Content-Length", strconv.Itoa(len(e.body))})
		}
	}
	e.Body = bodyKey(e.body)
	return e
}

func afRandomCases(seed int64, n int, mode string, maxEntries, maxBody int) []*afCase {
	var out []*afCase
	r := rand.New(rand.NewSource(seed*7919 + 17))
	for _, format := range []string{"uri", "uripost", "raw", "json"} {
		for k := 0; k < n; k++ {
			ne := 1 + r.Intn(12)
			if k%4 == 3 {
				ne = 1 + r.Intn(maxEntries)
			}
			mb := maxBody
			if ne > 60 {
				mb = maxBody / 8 // keep a single file within tens of megabytes
			}
			c := &afCase{Fmt: format, Src: fmt.Sprintf("random:%d:%d", seed, k)}
			for len(c.Items) == 0 || ne > 0 {
				switch x := r.Intn(10); {
				case x == 0:
					c.Items = append(c.Items, afItem{K: "B"})
				case x <= 2 && (format == "uri" || format == "uripost"):
					c.Items = append(c.Items, afItem{K: "H", Key: afHdrKeys[r.Intn(len(afHdrKeys))], Val: afRandVal(r)})
				default:
					c.Items = append(c.Items, afItem{K: "E", E: afRandEntry(r, format, mb)})
					ne--
				}
			}
			style := "text"
			if format == "json" {
				style = []string{"line", "pretty", "array", "arraypretty"}[r.Intn(4)]
			}
			final := r.Intn(2) == 0
			for range c.Items {
				c.Lays = append(c.Lays, afLay{CRLF: r.Intn(3) == 0, WS: r.Intn(3) == 0, Sep: format == "uri" || format == "json" || r.Intn(4) > 0,
					Final: final, Style: style})
			}
			c.Lay = c.Lays[0]
			entries := 0
			for _, it := range c.Items {
				if it.K == "E" {
					entries++
				}
			}
			c.Conf = afConf{Chosen: []string{}, Take: 2*entries + 1, Preload: k%2 == 1} // decoding is the same preloaded
			if mode == "c14" {
				c.Conf.Preload = r.Intn(2) == 0
				if r.Intn(2) == 0 {
					c.Conf.Limit = 1 + r.Intn(2*entries+2)
				}
				c.Conf.Passes = r.Intn(4)
				switch r.Intn(4) {
				case 0:
					c.Conf.Chosen = []string{"t1"}
				case 1:
					c.Conf.Chosen = []string{"t 2", "zz", ""}
				case 2:
					c.Conf.Chosen = []string{"nomatch"}
				}
				c.Conf.Take = 3*entries + 2
			}
			out = append(out, c)
		}
	}
	return out
}
