package main

// C07/C14 M1: seeded random abstract ammo files of up to -maxentries entries with bodies of up to
// -maxbody random bytes (json: random valid UTF-8 text), random per-item layouts, header lines
// between the entries (uri, uripost).  Input generation only: what is expected is decided by
// TraceAmmoFormats.tla from the logged abstract file.

import (
	"fmt"
	"math/rand"
	"strconv"
	"strings"
)

// Tags: everything after the single separating blank up to the end of the line belongs to the tag
// (uri, uripost, raw: interior runs of blanks and tabs and a leading blank are kept verbatim; a trailing
// blank cannot be written, the line is trimmed); json: any string.
var (
	afTags     = []string{"", "", "t1", "t 2", "tag-3", "a b c", "zz", "case  #12", "a\tb", "x -  y", " lead", "\tt", "t1 \t t1", "#1 [x]: y"}
	afJSONTags = []string{"trail ", " both ", "a\nb", "\u00fc \u4e16", "\"q\""}
	afMethods  = []string{"GET", "POST", "PUT", "DELETE", "PATCH", "OPTIONS", "HEAD", "PURGE"}
	afHdrKeys  = []string{"A", "a", "X-B", "x-b", "Accept", "User-Agent", "Cookie", "X-Req-Id", "Host", "host"}
	afSegs     = []string{"a", "buy", "p%2Fq", "x.y", "~u", "1", "index.html", "-_", "a;v=1", "(b)", "c,d", "e@f:g", "h!*'", "%7Bid%7D", "%25", "a+b", "$"}
	afQuery    = []string{"x=1", "y=2", "q=%20z", "rt=0", "station_to=7", "e=", "k=a%2Bb", "j=%7B%22k%22%3A1%7D", "s=a+b", "u=/p/q?r", "m=1;n=2", "noval", "p=%25", "z=[1]"}
	afValCh    = "abcXYZ019 ;=,/.*-_:]["
	afTextCh   = []rune("abc XYZ019\n\r\t\"\\{}[]:,<>&'\u00fc\u044f\u4e16\U0001F600\x00\x1f")
	// lengths around the buffer sizes of the readers (bufio.Reader 4096, bufio.Scanner start 4096 / limit 65536)
	afEdges = []int{4094, 4095, 4096, 4097, 4098, 8191, 8192, 8193, 65535, 65536, 65537}
)

// a long run of URL-safe text: around 4096, 5 000, 8 KiB, or `big` (uri: below the 64 KiB token limit of
// bufio.Scanner -- a longer line is malformed input, C13 --, the other formats: 70 000)
func afLongLen(r *rand.Rand, big int) int {
	switch r.Intn(5) {
	case 0:
		return 4000 + r.Intn(200)
	case 1:
		return 5000
	case 2:
		return 8100 + r.Intn(200)
	case 3:
		return big
	}
	return 200 + r.Intn(3000)
}

func afRandURI(r *rand.Rand) string {
	var b strings.Builder
	n := 1 + r.Intn(3)
	for i := 0; i < n; i++ {
		b.WriteString("/")
		if i < n-1 || r.Intn(3) > 0 {
			b.WriteString(afSegs[r.Intn(len(afSegs))])
		}
	}
	if q := r.Intn(3); q > 0 {
		b.WriteString("?")
		for i := 0; i < q; i++ {
			if i > 0 {
				b.WriteString("&")
			}
			b.WriteString(afQuery[r.Intn(len(afQuery))])
		}
	}
	return b.String()
}

func afBig(format string) int {
	if format == "uri" {
		return 50000
	}
	return 70000
}

func afRandVal(r *rand.Rand) string {
	n := r.Intn(12)
	var b strings.Builder
	for i := 0; i < n; i++ {
		b.WriteByte(afValCh[r.Intn(len(afValCh))])
	}
	return strings.TrimSpace(b.String())
}

// sizes above the decoders' pre-allocation threshold (readSized: 1 MiB)
var afHuge = []int{1<<20 + 1, 1<<20 + 4097, 3 << 19, 2<<20 + 1}

func afRandBody(r *rand.Rand, maxBody int, text bool) []byte {
	var n int
	if maxBody > 1<<20 { // "huge" files: every body is beyond 1 MiB or small
		if r.Intn(4) > 0 {
			n = afHuge[r.Intn(len(afHuge))]
		} else {
			n = r.Intn(50)
		}
		out := make([]byte, n)
		r.Read(out)
		if text {
			const ch = "abc XYZ019\n\"\\{}[]:,"
			for i := range out {
				out[i] = ch[int(out[i])%len(ch)]
			}
		}
		return out
	}
	switch r.Intn(10) {
	case 0, 1:
		n = 0
	case 2, 3, 4, 5, 6:
		n = 1 + r.Intn(40)
	case 7, 8:
		n = 1 + r.Intn(2000)
	default:
		n = 1 + r.Intn(maxBody)
		if e := afEdges[r.Intn(len(afEdges))]; e <= maxBody+1 {
			n = e // exactly at / one off the readers' buffer sizes
		}
	}
	if text {
		var b strings.Builder
		for b.Len() < n {
			b.WriteRune(afTextCh[r.Intn(len(afTextCh))])
		}
		return []byte(b.String())
	}
	out := make([]byte, n)
	r.Read(out)
	if n > 0 && r.Intn(3) == 0 {
		out[0] = '['
	}
	if n > 2 && r.Intn(3) == 0 {
		out[n-1] = '\n'
	}
	return out
}

func afRandEntry(r *rand.Rand, format string, maxBody int, long bool) *afEntry {
	e := &afEntry{Method: "GET", URI: afRandURI(r), Headers: [][]string{}, Tag: afTags[r.Intn(len(afTags))]}
	if format == "json" && r.Intn(4) == 0 {
		e.Tag = afJSONTags[r.Intn(len(afJSONTags))]
	}
	if long && r.Intn(3) == 0 { // long request line: long query value
		sep := "?"
		if strings.Contains(e.URI, "?") {
			sep = "&"
		}
		e.URI += sep + "ids=" + afLong(afLongLen(r, afBig(format)))
	}
	if long && r.Intn(6) == 0 && len(e.URI) < 10000 { // long tag
		e.Tag = "long tag  " + afLong(afLongLen(r, 9000))
	}
	switch format {
	case "uripost":
		e.Method = "POST"
		e.body = afRandBody(r, maxBody, false)
	case "raw", "json":
		e.Method = afMethods[r.Intn(len(afMethods))]
		if maxBody > 1<<20 {
			e.Method = afMethods[1+r.Intn(2)] // POST, PUT: entries with bodies
		}
		e.Host = []string{"h1", "h2:8080", "example.com", "[::1]:8080"}[r.Intn(4)]
		if e.Method != "GET" && e.Method != "DELETE" && e.Method != "HEAD" && e.Method != "OPTIONS" {
			e.body = afRandBody(r, maxBody, format == "json")
		}
		used := map[string]bool{}
		nh := r.Intn(4)
		if long && r.Intn(8) == 0 {
			nh = 40 // many headers
		}
		for i := 0; i < nh; i++ {
			k := afHdrKeys[r.Intn(len(afHdrKeys)-2)] // no Host among the entry's own headers
			if nh > 8 {
				k = fmt.Sprintf("X-H-%d", i)
			}
			if used[strings.ToLower(k)] {
				continue
			}
			used[strings.ToLower(k)] = true
			v := afRandVal(r)
			if long && r.Intn(6) == 0 {
				v = "v: [" + afLong(afLongLen(r, 70000)) + "]"
			}
			e.Headers = append(e.Headers, []string{k, v})
		}
		if format == "raw" && len(e.body) > 0 {
			e.Headers = append(e.Headers, []string{"Content-Length", strconv.Itoa(len(e.body))})
		}
	}
	e.Body = bodyKey(e.body)
	return e
}

func afRandomCases(seed int64, n int, mode string, maxEntries, maxBody int) []*afCase {
	var out []*afCase
	r := rand.New(rand.NewSource(seed*7919 + 17))
	for _, format := range []string{"uri", "uripost", "raw", "json"} {
		for k := 0; k < n; k++ {
			ne := 1 + r.Intn(12)
			if k%4 == 3 {
				ne = 1 + r.Intn(maxEntries)
			}
			mb := maxBody
			if ne > 60 {
				mb = maxBody / 8 // keep a single file within tens of megabytes
			}
			long := ne <= 60 // long lines / values / many headers in the files with few entries
			if k%5 == 1 && format != "uri" { // a few files of 2-4 entries with bodies beyond 1 MiB, several alive at once
				ne, mb, long = 2+r.Intn(3), 1<<21, false
			}
			c := &afCase{Fmt: format, Src: fmt.Sprintf("random:%d:%d", seed, k)}
			for len(c.Items) == 0 || ne > 0 {
				switch x := r.Intn(10); {
				case x == 0:
					c.Items = append(c.Items, afItem{K: "B"})
				case x <= 2 && (format == "uri" || format == "uripost"):
					v := afRandVal(r)
					if long && r.Intn(5) == 0 {
						v = "v: [" + afLong(afLongLen(r, afBig(format))) + "]"
					}
					c.Items = append(c.Items, afItem{K: "H", Key: afHdrKeys[r.Intn(len(afHdrKeys))], Val: v})
					if long && r.Intn(12) == 0 { // many header lines in a row
						for i := 0; i < 40; i++ {
							c.Items = append(c.Items, afItem{K: "H", Key: fmt.Sprintf("X-H-%d", i), Val: afRandVal(r)})
						}
					}
				default:
					c.Items = append(c.Items, afItem{K: "E", E: afRandEntry(r, format, mb, long)})
					ne--
				}
			}
			style := "text"
			if format == "json" {
				style = []string{"line", "pretty", "array", "arraypretty"}[r.Intn(4)]
			}
			final := r.Intn(2) == 0
			for range c.Items {
				c.Lays = append(c.Lays, afLay{CRLF: r.Intn(3) == 0, WS: r.Intn(3) == 0, Sep: format == "uri" || format == "json" || r.Intn(4) > 0,
					Final: final, Style: style})
			}
			c.Lay = c.Lays[0]
			entries := 0
			for _, it := range c.Items {
				if it.K == "E" {
					entries++
				}
			}
			c.Conf = afConf{Chosen: []string{}, Take: 2*entries + 1, Preload: k%2 == 1, Rep: []string{"absent", "null", "empty"}[k%3]} // decoding is the same preloaded
			if mode == "c14" {
				c.Conf.Preload = r.Intn(2) == 0
				if r.Intn(2) == 0 {
					c.Conf.Limit = 1 + r.Intn(2*entries+2)
				}
				c.Conf.Passes = r.Intn(4)
				switch r.Intn(4) {
				case 0:
					c.Conf.Chosen = []string{"t1"}
				case 1:
					c.Conf.Chosen = []string{"t 2", "zz", ""}
				case 2:
					c.Conf.Chosen = []string{"nomatch"}
				}
				c.Conf.Take = 3*entries + 2
			}
			out = append(out, c)
		}
	}
	return out
}
