package main

// C13: renderers (abstract case -> bytes) and projections (delivered ammo -> abstract entry id).
// Trusted base; written to be obviously faithful to docs/eng/providers.md.  No outcome is decided here.

import (
	"encoding/json"
	"fmt"
	"io"
	"sort"
	"strings"

	"net/http"

	grpcammo "github.com/yandex/pandora/components/providers/grpc"
	"github.com/yandex/pandora/core"
	"github.com/yandex/pandora/core/aggregator/netsample"

	"verifharness/internal/vt"
)

const mfPadChar = "~"

type mfEntry struct {
	ID     string // "e1", "e2", "e3", "t1", "t2", "x"
	Method string
	URI    string
	Body   string
	Tag    string
	Pad    int  // > 0: make the entry's line longer than 64 KiB with Pad filler characters
	Total  int  // > 0: pad the BODY with filler so that the sized part of the entry is exactly Total bytes
	Empty  bool // the all-empty entry a JSON null decodes to
	Loose  bool // an entry the statement does not pin (a field missing / null / given twice): identified by its tag alone
	Fmt    string
}

func mfWellFormed(format, id string) mfEntry {
	e := mfEntry{ID: id, Tag: id, URI: "/" + id + "?q=" + id, Fmt: format}
	switch format {
	case "uri":
		e.Method = "GET"
	case "uripost":
		e.Method, e.Body = "POST", "body-of-"+id
	case "raw", "jsonline", "jsonarray":
		e.Method, e.Body = "PUT", "{\"n\":\""+id+"\"}"
	case "grpcjson":
		e.Method = "pkg.Service." + strings.ToUpper(id)
	}
	return e
}

// uri / uripost: every entry sets its own in-file header state, so that a header line that reaches an entry
// it does not belong to (before or after it) shows in the delivered request
func (e mfEntry) hdrLines() string {
	return "[X-Seq: " + e.ID + "]\n[Host: " + e.ID + ".example.org]\n"
}

func (e mfEntry) padStr() string { return strings.Repeat(mfPadChar, e.Pad) }

// one well-formed entry in the given format
func (e mfEntry) render(format string) string {
	switch format {
	case "uri":
		return e.hdrLines() + e.URI + e.padIn("&pad=") + " " + e.Tag + "\n"
	case "uripost":
		if e.Total > 0 {
			e.Body += strings.Repeat(mfPadChar, e.Total-len(e.Body))
		}
		return e.hdrLines() + fmt.Sprintf("%d %s%s %s\n%s\n", len(e.Body), e.URI, e.padIn("&pad="), e.Tag, e.Body)
	case "raw":
		if e.Total > 0 {
			// the Content-Length digits change with the body: fit by iteration
			for k := 0; k < 4; k++ {
				head := fmt.Sprintf("%s %s HTTP/1.1\r\nHost: raw.example.org\r\nX-Common: c\r\nContent-Length: %d\r\n\r\n", e.Method, e.URI, len(e.Body))
				d := e.Total - len(head) - len(e.Body)
				if d == 0 {
					break
				}
				if d > 0 {
					e.Body += strings.Repeat(mfPadChar, d)
				} else {
					e.Body = e.Body[:len(e.Body)+d]
				}
			}
		}
		req := fmt.Sprintf("%s %s HTTP/1.1\r\nHost: raw.example.org\r\nX-Common: c\r\nContent-Length: %d\r\n\r\n%s",
			e.Method, e.URI, len(e.Body), e.Body)
		return fmt.Sprintf("%d %s%s\n%s\n", len(req), e.Tag, e.padStr(), req)
	case "jsonline", "jsonarray":
		b, _ := json.Marshal(map[string]interface{}{"tag": e.Tag, "uri": e.URI + e.padIn("&pad="), "method": e.Method,
			"host": "json.example.org", "headers": map[string]string{"X-Common": "c"}, "body": e.Body})
		return string(b)
	case "grpcjson":
		b, _ := json.Marshal(map[string]interface{}{"tag": e.Tag, "call": e.Method,
			"metadata": map[string]string{"x-common": "c"}, "payload": map[string]interface{}{"id": e.ID, "pad": e.padStr()}})
		return string(b) + "\n"
	}
	panic("format " + format)
}

func (e mfEntry) padIn(prefix string) string {
	if e.Pad == 0 {
		return ""
	}
	return prefix + e.padStr()
}

// the malformed item (or, for classes the reader treats as an entry, the entry "x"); rest = bytes that follow it
func mfRenderItem(format, cls string, rest string) (string, *mfEntry) {
	x := mfWellFormed(format, "x")
	switch cls {
	case "none", "cfghdr_nocolon", "cfghdr_nobracket", "cfghdr_emptykey":
		return x.render(format), &x
	case "longline":
		x.Pad = 70000
		return x.render(format), &x
	case "big_m1", "big_eq", "big_p1":
		x.Total = map[string]int{"big_m1": 1<<20 - 1, "big_eq": 1 << 20, "big_p1": 1<<20 + 1}[cls]
		r := x.render(format)
		return r, &x
	case "size0":
		x.Body = ""
		return x.render(format), &x
	case "trunc1", "mib_trunc", "big_trunc1", "big_trunc":
		// the item ends the file (nt = 0): `left` bytes follow the size line, the size field says `size`
		var size, left int
		switch cls {
		case "trunc1":
			left = 38
			size = left + 1
		case "mib_trunc":
			left, size = 38, 1<<20
		case "big_trunc1":
			left, size = 1<<20, 1<<20+1
		case "big_trunc":
			left, size = 38, 2<<20
		}
		body := "GET /x HTTP/1.1\r\nHost: h\r\n\r\n"
		body += strings.Repeat(mfPadChar, left-len(body))
		if format == "raw" {
			return fmt.Sprintf("%d x\n%s", size, body), nil
		}
		return fmt.Sprintf("%d /x x\n%s", size, body), nil
	case "truncated":
		body := "abc\n"
		size := len(body) + len(rest) + 50
		if format == "raw" {
			return fmt.Sprintf("%d x\n%s", size, body), nil
		}
		return fmt.Sprintf("%d /x x\n%s", size, body), nil
	case "negsize", "absurdsize", "nonnumsize":
		sz := map[string]string{"negsize": "-5", "absurdsize": "1000000000000", "nonnumsize": "12x"}[cls]
		if format == "raw" {
			return sz + " x\nGET /x HTTP/1.1\r\nHost: h\r\n\r\n\n", nil
		}
		return sz + " /x x\nhello\n", nil
	case "hdr_tail":
		return "[X-Seq: late]\n[Host: evil.example.org]\n[X-Late: leaked]\n[broken header line\n", nil
	case "hdr_late":
		return "[X-Seq: late]\n[Host: evil.example.org]\n[X-Late: leaked]\n", nil
	case "hdr_nocolon":
		return "[Host example.org]\n", nil
	case "hdr_nobracket":
		return "[Host: example.org\n", nil
	case "hdr_emptykey":
		return "[: value]\n", nil
	case "badrequest":
		req := "THIS IS NOT AN HTTP REQUEST\r\nno colon here\r\n\r\n"
		return fmt.Sprintf("%d x\n%s\n", len(req), req), nil
	case "nouri":
		return "5\nhello\n", nil
	case "badurl":
		if format == "uripost" {
			return "5 http://[::1/x x\nhello\n", nil
		}
		return "http://[::1/x x\n", nil
	case "badmethod":
		return mfJSONItem(format, `{"tag":"x","uri":"/x","method":"G E T","host":"json.example.org"}`), nil
	case "badjson":
		return mfJSONItem(format, `{"tag":"x","uri":/x}`), nil
	case "shape_array":
		return mfJSONItem(format, `[1,2]`), nil
	case "shape_type":
		if format == "grpcjson" {
			return mfJSONItem(format, `{"tag":"x","call":5,"payload":"str"}`), nil
		}
		return mfJSONItem(format, `{"tag":"x","uri":5,"headers":["a"]}`), nil
	case "shape_scalar":
		return mfJSONItem(format, `42`), nil
	case "nullvalue":
		return mfJSONItem(format, `null`), &mfEntry{ID: "x", Empty: true}
	}
	// field-level JSON classes: the well-formed object of x with ONE field replaced / added
	if item, loose, ok := mfJSONFieldItem(format, cls); ok {
		if loose {
			return mfJSONItem(format, item), &mfEntry{ID: "x", Tag: "x", Loose: true}
		}
		return mfJSONItem(format, item), nil
	}
	panic("class " + cls)
}

// mfJSONFieldItem: (JSON text, identified loosely when delivered, known class)
func mfJSONFieldItem(format, cls string) (string, bool, bool) {
	var fields [][2]string // name, raw JSON value - in order
	if format == "grpcjson" {
		fields = [][2]string{{"tag", `"x"`}, {"call", `"pkg.Service.X"`}, {"metadata", `{"x-common":"c"}`}, {"payload", `{"id":"x","pad":""}`}}
	} else {
		fields = [][2]string{{"tag", `"x"`}, {"uri", `"/x?q=x"`}, {"method", `"PUT"`}, {"host", `"json.example.org"`},
			{"headers", `{"X-Common":"c"}`}, {"body", `"{\"n\":\"x\"}"`}}
	}
	set := func(name, raw string) {
		for i := range fields {
			if fields[i][0] == name {
				fields[i][1] = raw
				return
			}
		}
		machinery("class %s: no field %q in a %s entry", cls, name, format)
	}
	loose := false
	switch cls {
	case "payload_scalar":
		set("payload", `42`)
	case "payload_array":
		set("payload", `[1,2]`)
	case "payload_string":
		set("payload", `"str"`)
	case "meta_list":
		set("metadata", `["a","b"]`)
	case "meta_nonstring":
		set("metadata", `{"x-common":5}`)
	case "meta_nested":
		set("metadata", `{"x-common":{"a":"b"}}`)
	case "call_number":
		set("call", `5`)
	case "tag_object":
		set("tag", `{"a":1}`)
	case "hdr_list":
		set("headers", `["X-Common: c"]`)
	case "hdr_nonstring":
		set("headers", `{"X-Common":5}`)
	case "hdr_nested":
		set("headers", `{"X-Common":{"a":"b"}}`)
	case "body_number":
		set("body", `5`)
	case "body_object":
		set("body", `{"n":"x"}`)
	case "uri_number":
		set("uri", `5`)
	case "host_list":
		set("host", `["json.example.org"]`)
	case "method_number":
		set("method", `5`)
	case "tag_number":
		set("tag", `5`)
	case "dup_field":
		loose = true
		fields = append(fields, [2]string{"tag", `"x"`})
	case "extra_field":
		loose = true
		fields = append(fields, [2]string{"nosuchfield", `{"a":[1,2]}`})
	case "field_null":
		loose = true
		if format == "grpcjson" {
			set("payload", `null`)
		} else {
			set("headers", `null`)
		}
	case "call_missing":
		loose = true
		fields = append(fields[:1], fields[2:]...)
	default:
		return "", false, false
	}
	parts := []string{}
	for _, f := range fields {
		parts = append(parts, `"`+f[0]+`":`+f[1])
	}
	return "{" + strings.Join(parts, ",") + "}", loose, true
}

func mfJSONItem(format, s string) string {
	if format == "jsonarray" {
		return s
	}
	return s + "\n"
}

func mfIDs(prefix string, n int) []string {
	out := []string{}
	for i := 1; i <= n; i++ {
		out = append(out, fmt.Sprintf("%s%d", prefix, i))
	}
	return out
}

// mfRenderCase: <prefix entries> <item> <trailing entries>; returns the bytes and the entries a delivery
// may be identified with.
func mfRenderCase(c mfCase) ([]byte, []mfEntry) {
	var entries []mfEntry
	var pre, post []string
	if c.Cls == "long" {
		return mfRenderLong(c)
	}
	for _, id := range mfIDs("e", c.Np) {
		e := mfWellFormed(c.Format, id)
		entries = append(entries, e)
		pre = append(pre, e.render(c.Format))
	}
	for _, id := range mfIDs("t", c.Nt) {
		e := mfWellFormed(c.Format, id)
		entries = append(entries, e)
		post = append(post, e.render(c.Format))
	}
	sep := ""
	if c.Format == "jsonline" {
		sep = "\n"
	}
	if c.Format == "jsonarray" {
		sep = ",\n"
	}
	rest := strings.Join(post, sep)
	var item string
	var x *mfEntry
	if c.Cls == "cut" {
		point, _ := c.Arg[0].(string)
		item, x = mfRenderCut(c.Format, point)
	} else if c.Cls == "rerun" {
		base, _ := c.Arg[0].(string)
		item, x = mfRenderItem(c.Format, base, rest)
	} else if c.Cls == "bufline" {
		base := "none"
		if l, _ := c.Arg[0].(string); l == "70k" {
			base = "longline"
		}
		item, x = mfRenderItem(c.Format, base, rest)
	} else {
		item, x = mfRenderItem(c.Format, c.Cls, rest)
	}
	if x != nil {
		entries = append(entries, *x)
	}
	parts := append(append(append([]string{}, pre...), item), post...)
	var s string
	switch c.Format {
	case "jsonarray":
		s = "[" + strings.Join(parts, sep) + "]\n"
	case "jsonline":
		s = ""
		for _, p := range parts {
			s += strings.TrimSuffix(p, "\n") + "\n"
		}
	case "uri", "uripost":
		s = "[X-Common: c]\n" + strings.Join(parts, "")
	default:
		s = strings.Join(parts, "")
	}
	return []byte(s), entries
}

// ---------------------------------------------------------------------------------------------------
// projections

type httpGunAmmo interface {
	IsInvalid() bool
}

func stripPad(s string) string {
	s = strings.ReplaceAll(s, mfPadChar, "")
	s = strings.ReplaceAll(s, "%7E", "")
	return strings.TrimSuffix(s, "&pad=")
}

func mfProjectHTTP(a core.Ammo) mfDelivery {
	ra, ok := a.(interface {
		Request() (*http.Request, *netsample.Sample)
	})
	if !ok {
		return mfDelivery{Tag: fmt.Sprintf("?%T", a)}
	}
	req, sample := ra.Request()
	d := mfDelivery{Tag: sample.Tags(), Method: req.Method, URI: req.URL.RequestURI(), Common: req.Header.Get("X-Common"),
		Seq: req.Header.Get("X-Seq"), Host: req.Host, rawURI: req.URL.RequestURI(), keep: req}
	if req.URL.Path == "" && req.URL.RawQuery == "" {
		d.URI = ""
	}
	d.Body = readAllString(req.Body)
	if ia, ok := a.(httpGunAmmo); ok {
		d.Invalid = ia.IsInvalid()
	}
	hk := []string{}
	for k, v := range req.Header {
		hk = append(hk, k+"="+strings.Join(v, ","))
	}
	sort.Strings(hk)
	d.Raw = fmt.Sprintf("tag=%q %s %s host=%q hdr=%v body=%q", d.Tag, req.Method, req.URL.String(), req.Host, hk, d.Body)
	return d
}

func mfProjectGRPC(a core.Ammo) mfDelivery {
	g, ok := a.(*grpcammo.Ammo)
	if !ok || g == nil {
		return mfDelivery{Tag: fmt.Sprintf("?%T", a)}
	}
	d := mfDelivery{Tag: g.Tag, Method: g.Call, Invalid: g.IsInvalid()}
	if g.Payload != nil {
		if id, ok := g.Payload["id"].(string); ok {
			d.URI = id
		}
	}
	if g.Metadata != nil {
		d.Common = g.Metadata["x-common"]
	}
	keys := []string{}
	for k := range g.Payload {
		keys = append(keys, k)
	}
	sort.Strings(keys)
	pj, _ := json.Marshal(g.Payload)
	mj, _ := json.Marshal(g.Metadata)
	d.Raw = fmt.Sprintf("tag=%q call=%q md=%s payload=%s invalid=%v", g.Tag, g.Call, mj, pj, g.IsInvalid())
	return d
}

func readAllString(r io.Reader) string {
	if r == nil {
		return ""
	}
	b, _ := io.ReadAll(r)
	return string(b)
}

// mfIdentify maps a delivery to the id of the entry it equals ("unchanged"), or to a description that is
// not in the specification's alphabet.
func mfIdentify(d mfDelivery, entries []mfEntry) string {
	if d.Invalid {
		return "invalid"
	}
	for _, e := range entries {
		if e.Empty {
			if d.Tag == "" && d.Body == "" && (d.URI == "" || d.URI == "/") {
				return e.ID
			}
			continue
		}
		if e.Loose {
			if d.Tag == e.Tag {
				return e.ID
			}
			continue
		}
		if strings.HasPrefix(e.Method, "pkg.") {
			if d.Tag == e.Tag && d.Method == e.Method && d.URI == e.ID && d.Common == "c" {
				return e.ID
			}
			continue
		}
		if (e.Fmt == "uri" || e.Fmt == "uripost") && (d.Seq != e.ID || d.Host != e.ID+".example.org") {
			continue
		}
		if e.Total > 0 {
			// a padded body: same length and same content as rendered
			if d.Tag == e.Tag && d.Method == e.Method && d.URI == e.URI && d.Common == "c" && mfPaddedBodyOK(d.Body, e, e.Fmt) {
				return e.ID
			}
			continue
		}
		if stripPad(d.Tag) == e.Tag && d.Method == e.Method && stripPad(d.URI) == e.URI && d.Body == e.Body && d.Common == "c" {
			return e.ID
		}
	}
	return trunc(fmt.Sprintf("other(tag=%q method=%q uri=%q body=%q common=%q seq=%q host=%q)", trunc(d.Tag, 20), d.Method, trunc(d.URI, 30), trunc(d.Body, 20), d.Common, d.Seq, d.Host), 190)
}

// the body of an entry rendered with Total: the original body followed by filler up to the rendered length
func mfPaddedBodyOK(got string, e mfEntry, format string) bool {
	base := mfWellFormed(format, e.ID).Body
	if !strings.HasPrefix(got, base) || strings.Trim(got[len(base):], mfPadChar) != "" {
		return false
	}
	if format == "uripost" {
		return len(got) == e.Total
	}
	// raw: head + body = Total
	head := fmt.Sprintf("%s %s HTTP/1.1\r\nHost: raw.example.org\r\nX-Common: c\r\nContent-Length: %d\r\n\r\n", e.Method, e.URI, len(got))
	return len(head)+len(got) == e.Total
}

// cut: the entry x, cut at an exact point (the file ends there; Malformed!CutPoints)
func mfRenderCut(format, point string) (string, *mfEntry) {
	x := mfWellFormed(format, "x")
	full := x.render(format) // [header lines] size line \n body \n
	hdr := ""
	if format == "uripost" {
		hdr = x.hdrLines()
	}
	rest := strings.TrimPrefix(full, hdr)
	nl := strings.Index(rest, "\n")
	sizeLine, body := rest[:nl], strings.TrimSuffix(rest[nl+1:], "\n")
	if len(body) < 3 {
		machinery("cut: body too short")
	}
	switch point {
	case "sizeline_mid":
		return hdr + sizeLine[:1], nil
	case "sizeline_nonl":
		return hdr + sizeLine, nil
	case "sizeline":
		return hdr + sizeLine + "\n", nil
	case "body1":
		return hdr + sizeLine + "\n" + body[:1], nil
	case "bodym1":
		return hdr + sizeLine + "\n" + body[:len(body)-1], nil
	case "body_nonl":
		return hdr + sizeLine + "\n" + body, &x
	}
	machinery("unknown cut point %q", point)
	return "", nil
}

// long: arg = <<lines, period, passes>>; grpc/json, ids "1".."n", undecodable lines at 2 and at multiples of period
func mfRenderLong(c mfCase) ([]byte, []mfEntry) {
	n, period := vt.Int(c.Arg[0]), vt.Int(c.Arg[1])
	var sb strings.Builder
	var entries []mfEntry
	for i := 1; i <= n; i++ {
		if period != 0 && (i == 2 || i%period == 0) {
			sb.WriteString(`{"tag":"bad","call":` + "\n")
			continue
		}
		e := mfWellFormed(c.Format, fmt.Sprint(i))
		entries = append(entries, e)
		sb.WriteString(e.render(c.Format))
	}
	return []byte(sb.String()), entries
}
