package main

// C02 M2: deterministic replay of TLC behaviours of Schedule.tla through the REAL
// compositeSchedule.  One goroutine per caller; the build-tag-guarded yield hooks in
// core/schedule/composite.go park a goroutine before every step that another goroutine
// can interleave with, and the controller releases exactly one goroutine per step of the
// behaviour.  The driver records where each goroutine actually was parked (site, node) and
// what each root call returned; TraceSchedule.tla decides whether that is a behaviour of
// the specification.

import (
	"bytes"
	"flag"
	"fmt"
	"runtime"
	"strconv"
	"sync"
	"time"

	"github.com/yandex/pandora/core"
	"github.com/yandex/pandora/core/schedule"

	"verifharness/internal/vt"
)

func init() { register("schedreplay", schedReplayMain) }

const srTick = time.Hour

func goid() int64 {
	var buf [64]byte
	n := runtime.Stack(buf[:], false)
	f := bytes.Fields(buf[:n])
	id, _ := strconv.ParseInt(string(f[1]), 10, 64)
	return id
}

type srReport struct {
	c    string
	kind string // "yield" | "ret"
	site string
	node int
	ret  []interface{}
	off  bool
}

type srTree struct {
	kind []string
	kids [][]int
	toks [][]int
	dur  []int
	mode string
	node []core.Schedule
}

func parseTree(m map[string]interface{}) *srTree {
	t := &srTree{mode: vt.Str(m["mode"])}
	for _, k := range vt.List(m["kind"]) {
		t.kind = append(t.kind, vt.Str(k))
	}
	for _, ks := range vt.List(m["kids"]) {
		var r []int
		for _, k := range vt.List(ks) {
			r = append(r, vt.Int(k))
		}
		t.kids = append(t.kids, r)
	}
	for _, ks := range vt.List(m["toks"]) {
		var r []int
		for _, k := range vt.List(ks) {
			r = append(r, vt.Int(k))
		}
		t.toks = append(t.toks, r)
	}
	for _, d := range vt.List(m["dur"]) {
		t.dur = append(t.dur, vt.Int(d))
	}
	t.node = make([]core.Schedule, len(t.kind)+1)
	return t
}

// build constructs node n (1-based) with the real constructors.
func (t *srTree) build(n int) core.Schedule {
	i := n - 1
	var s core.Schedule
	switch t.kind[i] {
	case "doat":
		toks := t.toks[i]
		allZero := true
		for _, o := range toks {
			if o != 0 {
				allZero = false
			}
		}
		if allZero && t.dur[i] == 0 {
			s = schedule.NewOnce(int64(len(toks)))
		} else {
			s = schedule.NewDoAtSchedule(time.Duration(t.dur[i])*srTick, int64(len(toks)), func(k int64) time.Duration {
				return time.Duration(toks[k]) * srTick
			})
		}
	case "unl":
		s = schedule.NewUnlimited(time.Duration(t.dur[i]) * srTick)
	case "comp":
		var kids []core.Schedule
		for _, k := range t.kids[i] {
			kids = append(kids, t.build(k))
		}
		s = schedule.NewComposite(kids...)
	}
	t.node[n] = s
	return s
}

func (t *srTree) nodeOf(s interface{}) int {
	for n := 1; n < len(t.node); n++ {
		if t.node[n] != nil && interface{}(t.node[n]) == s {
			return n
		}
	}
	return -1
}

type srStep struct {
	Ev      string        `json:"ev"`
	B       int           `json:"b"`
	C       string        `json:"c"`
	Op      string        `json:"op"`
	Site    string        `json:"site"`
	Node    int           `json:"node"`
	Ret     []interface{} `json:"ret"`
	Offgrid bool          `json:"offgrid"`
}

type srReset struct {
	Ev   string      `json:"ev"`
	B    int         `json:"b"`
	Tree interface{} `json:"tree"`
}

func schedReplayMain(args []string) {
	fs := flag.NewFlagSet("schedreplay", flag.ExitOnError)
	in := fs.String("in", "", "behaviours (ndjson)")
	out := fs.String("out", "", "observations (ndjson)")
	_ = fs.Parse(args)
	behs := vt.ReadNDJSON(*in)
	w := vt.Create(*out)
	defer w.Close()

	var mu sync.Mutex
	callerOf := map[int64]string{}
	var curTree *srTree
	var rep chan srReport
	release := map[string]chan struct{}{}

	schedule.VerifYield = func(s interface{}, site string) {
		mu.Lock()
		c, ok := callerOf[goid()]
		tr, rp := curTree, rep
		var rel chan struct{}
		if ok {
			rel = release[c]
		}
		mu.Unlock()
		if !ok || tr == nil {
			return // construction-time calls (NewComposite calls Left) are not part of a behaviour
		}
		rp <- srReport{c: c, kind: "yield", site: site, node: tr.nodeOf(s)}
		<-rel
	}

	diverged := 0
	for bi, b := range behs {
		tm := vt.Map(b["tree"])
		tr := parseTree(tm)
		var root core.Schedule
		t0 := time.Now()
		setupPanic := func() (p interface{}) {
			defer func() { p = recover() }()
			root = tr.build(1)
			if tr.mode == "explicit" {
				root.Start(t0)
			}
			return nil
		}()
		w.Emit(srReset{Ev: "reset", B: bi, Tree: tm})
		if setupPanic != nil {
			// construction or the explicit Start panicked: recorded as a step no caller of the specification can take
			first := vt.Map(vt.List(b["hist"])[0])
			w.Emit(srStep{Ev: "step", B: bi, C: vt.Str(first["c"]), Op: "N", Site: "setup-panic",
				Ret: []interface{}{"panic", fmt.Sprint(setupPanic)}})
			diverged++
			continue
		}
		toTicks := func(t time.Time) (int, bool) {
			d := t.Sub(t0)
			k := (d + srTick/2) / srTick
			if d < 0 {
				k = (d - srTick/2) / srTick
			}
			rem := d - k*srTick
			return int(k), rem < -5*time.Second || rem > 5*time.Second
		}
		myRep := make(chan srReport, 16)
		ops := map[string]chan string{}
		mu.Lock()
		curTree, rep = tr, myRep
		callerOf = map[int64]string{}
		release = map[string]chan struct{}{}
		mu.Unlock()
		hist := vt.List(b["hist"])
		callers := map[string]bool{}
		for _, e := range hist {
			callers[vt.Str(vt.Map(e)["c"])] = true
		}
		for c := range callers {
			c := c
			ops[c] = make(chan string)
			mu.Lock()
			release[c] = make(chan struct{})
			mu.Unlock()
			ready := make(chan struct{})
			go func() {
				mu.Lock()
				callerOf[goid()] = c
				mu.Unlock()
				close(ready)
				for op := range ops[c] {
					func() {
						defer func() {
							if r := recover(); r != nil {
								myRep <- srReport{c: c, kind: "ret", ret: []interface{}{"panic", fmt.Sprint(r)}}
							}
						}()
						if op == "N" {
							t, ok := root.Next()
							k, off := toTicks(t)
							myRep <- srReport{c: c, kind: "ret", ret: []interface{}{"N", k, ok}, off: off}
						} else {
							myRep <- srReport{c: c, kind: "ret", ret: []interface{}{"L", root.Left()}}
						}
					}()
				}
			}()
			<-ready
		}
		cur := map[string]*srReport{}
		wait := func(c string) *srReport {
			select {
			case r := <-myRep:
				if r.c != c {
					// another goroutine moved although it was not released: record it as such
					return &srReport{c: c, kind: "foreign:" + r.c}
				}
				return &r
			case <-time.After(3 * time.Second):
				return &srReport{c: c, kind: "blocked"}
			}
		}
		ok := true
		for _, e0 := range hist {
			e := vt.Map(e0)
			c, a := vt.Str(e["c"]), vt.Str(e["a"])
			st := srStep{Ev: "step", B: bi, C: c, Ret: []interface{}{}}
			if a == "CallNext" || a == "CallLeft" {
				st.Op = map[string]string{"CallNext": "N", "CallLeft": "L"}[a]
				st.Site = "idle"
				if cur[c] != nil {
					st.Site = "busy:" + cur[c].site
					ok = false
				} else {
					ops[c] <- st.Op
				}
			} else {
				r := cur[c]
				if r == nil || r.kind != "yield" {
					st.Site = "notparked"
					ok = false
				} else {
					st.Site, st.Node = r.site, r.node
					release[c] <- struct{}{}
				}
			}
			if ok {
				r := wait(c)
				switch r.kind {
				case "yield":
					cur[c] = r
				case "ret":
					cur[c] = nil
					st.Ret, st.Offgrid = r.ret, r.off
				default:
					st.Ret = []interface{}{r.kind}
					ok = false
				}
			}
			w.Emit(st)
			if !ok {
				diverged++
				break
			}
		}
		// tear down: free parked goroutines of a diverged behaviour (hooks become pass-through)
		mu.Lock()
		curTree = nil
		mu.Unlock()
		for c := range callers {
			if cur[c] != nil && cur[c].kind == "yield" {
				select {
				case release[c] <- struct{}{}:
				default:
				}
			}
			close(ops[c])
		}
	}
	fmt.Printf("{\"behaviours\":%d,\"diverged\":%d,\"events\":%d}\n", len(behs), diverged, w.Count())
}
