package main

// C08 driver.  `vdrive ammoprov -cases <ndjson from TLC> -out <ndjson>` runs every cell of the matrix
// against the REAL providers and records what happened; TraceAmmoProvider.tla decides.
//
// Per cell: (1) the provider is built by config.Decode of `{type: ..., limit: ..., passes: ...}` through the
// registered plugin constructor (after core/import, phttp/import, grpc/import on an in-memory fs), run,
// and consumed by nc goroutines; recorded: how many items were acquired (and which entries), how many
// consumers saw ok=false, whether/with what Run returned, whether the driver had to cancel;
// (2) a real engine.Engine over the same provider config with a counting mock gun; recorded: Engine.Run's
// result, the number of shots, whether Engine.Wait returned.
//
// With -osdir every cell is run a second time on afero.OsFs (real files under that directory, one sub-directory and
// child process per group; relative paths for a share of the cells); each child also logs its number of open
// file descriptors before the first and after every cell.
//
// Hang rule: "no progress for -hang (default 5 s; normal: microseconds)" while Run has not returned or a
// consumer is still inside Acquire makes the attempt blocked; the cell is re-run once and only then recorded
// as blocked.  Cells run in child processes (one per provider kind x mode) so that abandoned, possibly
// spinning, goroutines die with the child; after -maxblocked (2) confirmed blocked cells a child skips the rest
// of its group (recorded as skipped).

import (
	"bufio"
	"context"
	"encoding/json"
	"errors"
	"flag"
	"fmt"
	"os"
	"os/exec"
	"sort"
	"strings"
	"sync"
	"sync/atomic"
	"time"

	"github.com/spf13/afero"
	grpcimport "github.com/yandex/pandora/components/grpc/import"
	phttpimport "github.com/yandex/pandora/components/phttp/import"
	"github.com/yandex/pandora/core"
	"github.com/yandex/pandora/core/config"
	"github.com/yandex/pandora/core/engine"
	coreimport "github.com/yandex/pandora/core/import"
	pregister "github.com/yandex/pandora/core/register"
	"github.com/yandex/pandora/lib/monitoring"
	"go.uber.org/zap"
)

func init() {
	register("ammoprov", ammoprovMain)
	register("ammoprov-child", ammoprovChild)
}

type apObs struct {
	apCase
	Shape   string `json:"shape"` // config map shape: "viper" (string keys) | "yaml" (interface keys)
	Via     string `json:"via"`   // registration used: the kind's own type, or `type: http` + `decoder:`
	Fs      string `json:"fs"`     // "mem" (afero.MemMapFs) | "os" (afero.OsFs, files in a scratch directory)
	Layout  string `json:"layout"` // std | big | +nonl | +rel (see apLayout)
	Fds0    int    `json:"fds0"`   // open file descriptors of the child before its first cell
	Fds     int    `json:"fds"`    // ... after this cell
	Skipped bool   `json:"skipped"`
	Fault   string `json:"fault"` // injected file fault of this run ("" = none): open | close | read<k> | seek<k> | stat
	Reject  bool   `json:"reject"` // the file holds an entry over the provider's size limit: a clean error is expected
	OverAt  int    `json:"over_at"` // number of entries in front of the oversize entry (-1: none)
	lay     apLayout
	dir     string
	file    string
	// direct run
	BuildErr  string `json:"build_err"`
	Count     int    `json:"count"`
	Hist      []int  `json:"hist"`
	Unknown   int    `json:"unknown"` // acquired items that are no entry of the file
	// work done on the ammo file(s) by the direct run, as seen by the fs wrapper
	Rewinds   int `json:"rewinds"` // Seek(0, SeekStart) calls
	Opens     int `json:"opens"`
	Closes    int `json:"closes"`
	Reads     int `json:"reads"`
	KBytes    int `json:"kbytes"`
	FaultsHit int `json:"faults_hit"`
	Variants  int    `json:"variants"` // entries that did not look the same (fingerprint) every time they were delivered
	Eofs      int    `json:"eofs"`
	Cancelled bool   `json:"cancelled"`
	RunRet    bool   `json:"run_ret"`
	RunClass  string `json:"run_class"` // nil | ctx | err
	RunErr    string `json:"run_err"`
	RetUs     int    `json:"ret_us"` // last acquisition / cancel -> Run returned
	ConsDone  bool   `json:"cons_done"`
	Drained   int    `json:"drained"`
	EofAfter  bool   `json:"eof_after"`
	Attempts  int    `json:"attempts"`
	// engine run
	Eng      bool   `json:"eng"`
	EngRet   bool   `json:"eng_ret"`
	EngClass string `json:"eng_class"`
	EngErr   string `json:"eng_err"`
	EngShots int    `json:"eng_shots"`
	EngWait  bool   `json:"eng_wait"`
	EngUs    int    `json:"eng_us"`
	EngTries int    `json:"eng_attempts"`
	EngRewinds int  `json:"eng_rewinds"`
	EngOpens   int  `json:"eng_opens"`
	fault      apFault
}

func apReadCases(path string) []apCase {
	f, err := os.Open(path)
	if err != nil {
		panic(err)
	}
	defer f.Close()
	var out []apCase
	sc := bufio.NewScanner(f)
	sc.Buffer(make([]byte, 1<<20), 1<<24)
	for sc.Scan() {
		if len(sc.Bytes()) == 0 {
			continue
		}
		var c apCase
		if err := json.Unmarshal(sc.Bytes(), &c); err != nil {
			panic(err)
		}
		out = append(out, c)
	}
	return out
}

// ---------------------------------------------------------------------------------------- parent

func ammoprovMain(args []string) {
	fl := flag.NewFlagSet("ammoprov", flag.ExitOnError)
	cases := fl.String("cases", "", "case table exported by TLC (ndjson)")
	out := fl.String("out", "", "observations (ndjson)")
	hang := fl.Duration("hang", 5*time.Second, "no-progress limit")
	par := fl.Int("par", 4, "child processes in parallel")
	maxBlocked := fl.Int("maxblocked", 2, "confirmed blocked cells per group before the rest is skipped")
	osdir := fl.String("osdir", "", "if set: every cell is ALSO run on afero.OsFs with its files under this directory")
	faults := fl.Bool("faults", true, "a rotating third of the cells is ALSO run with an injected file fault")
	_ = fl.Parse(args)
	all := apReadCases(*cases)
	groups := map[string][]apCase{}
	modes := []string{"mem"}
	if *osdir != "" {
		modes = append(modes, "os")
	}
	seed0 := 1
	fmt.Sscan(os.Getenv("VERIF_SEED"), &seed0)
	total := 0
	for _, c := range all {
		for _, m := range modes {
			k := fmt.Sprintf("%s-%v-%s", c.Kind, c.Preload, m)
			groups[k] = append(groups[k], c)
			total++
		}
		// fault injection (mem fs + one file fault per cell): a rotating third of the file-backed cells
		// (c.ID/3: the last factor of a table id is the cut - the rotation must not depend on it)
		if *faults && c.Kind != "uris" && (c.ID/3+seed0)%3 == 0 {
			k := fmt.Sprintf("%s-%v-fault", c.Kind, c.Preload)
			groups[k] = append(groups[k], c)
			total++
		}
	}
	keys := []string{}
	for k := range groups {
		keys = append(keys, k)
	}
	sort.Strings(keys)
	dir, err := os.MkdirTemp("", "ammoprov-")
	if err != nil {
		panic(err)
	}
	defer os.RemoveAll(dir)
	self, err := os.Executable()
	if err != nil {
		panic(err)
	}
	sem := make(chan struct{}, *par)
	var wg sync.WaitGroup
	var failed atomic.Int32
	for _, k := range keys {
		k := k
		wg.Add(1)
		go func() {
			defer wg.Done()
			sem <- struct{}{}
			defer func() { <-sem }()
			in := dir + "/" + k + ".in"
			f, _ := os.Create(in)
			w := bufio.NewWriter(f)
			for _, c := range groups[k] {
				b, _ := json.Marshal(c)
				w.Write(b)
				w.WriteByte('\n')
			}
			w.Flush()
			f.Close()
			// worst case per group: maxblocked cells x 2 attempts x (direct + engine + wait) hangs
			limit := time.Duration(*maxBlocked*8+4)**hang + 180*time.Second
			ctx, cancel := context.WithTimeout(context.Background(), limit)
			defer cancel()
			fsMode, fsDir := "mem", ""
			if strings.HasSuffix(k, "-os") {
				fsMode, fsDir = "os", *osdir+"/"+k
			}
			if strings.HasSuffix(k, "-fault") {
				fsMode = "fault"
			}
			cmd := exec.CommandContext(ctx, self, "ammoprov-child", "-cases", in, "-out", dir+"/"+k+".out",
				"-hang", hang.String(), "-maxblocked", fmt.Sprint(*maxBlocked), "-fs", fsMode, "-dir", fsDir)
			cmd.Stderr = os.Stderr
			if err := cmd.Run(); err != nil {
				fmt.Fprintf(os.Stderr, "ammoprov: child %s failed: %v\n", k, err)
				failed.Add(1)
			}
		}()
	}
	wg.Wait()
	if failed.Load() > 0 {
		os.Exit(3)
	}
	o, err := os.Create(*out)
	if err != nil {
		panic(err)
	}
	w := bufio.NewWriter(o)
	n := 0
	for _, k := range keys {
		b, err := os.ReadFile(dir + "/" + k + ".out")
		if err != nil {
			panic(err)
		}
		w.Write(b)
		for _, ch := range b {
			if ch == '\n' {
				n++
			}
		}
	}
	w.Flush()
	o.Close()
	if n != total {
		fmt.Fprintf(os.Stderr, "ammoprov: %d observations for %d runs\n", n, total)
		os.Exit(3)
	}
}

// ---------------------------------------------------------------------------------------- child

var apShots atomic.Pointer[atomic.Int64]

type apGun struct{ shots *atomic.Int64 }

func (g *apGun) Bind(core.Aggregator, core.GunDeps) error { return nil }
func (g *apGun) Shoot(core.Ammo)                          { g.shots.Add(1) }

func ammoprovChild(args []string) {
	fl := flag.NewFlagSet("ammoprov-child", flag.ExitOnError)
	cases := fl.String("cases", "", "")
	out := fl.String("out", "", "")
	hang := fl.Duration("hang", 5*time.Second, "")
	maxBlocked := fl.Int("maxblocked", 2, "")
	fsMode := fl.String("fs", "mem", "")
	fsDir := fl.String("dir", "", "")
	_ = fl.Parse(args)

	var inner afero.Fs = afero.NewMemMapFs()
	dir := "/c08"
	if *fsMode == "os" {
		// what the pandora binary uses: real files (Close is not idempotent, descriptors are a resource,
		// Seek/Read hit the kernel); the child works inside its own scratch directory
		inner = afero.NewOsFs()
		dir = *fsDir
		if err := os.MkdirAll(dir, 0o755); err != nil {
			panic(err)
		}
		if err := os.Chdir(dir); err != nil {
			panic(err)
		}
	}
	fs := &apFs{Fs: inner} // what the providers see: counts the work on the ammo files, injects the cell's fault
	coreimport.Import(fs)
	phttpimport.Import(fs)
	grpcimport.Import(fs)
	pregister.Gun("vmock", func() core.Gun { return &apGun{shots: apShots.Load()} })

	seed := 1
	fmt.Sscan(os.Getenv("VERIF_SEED"), &seed)
	o, err := os.Create(*out)
	if err != nil {
		panic(err)
	}
	w := bufio.NewWriter(o)
	blocked := 0
	fds0 := apOpenFds()
	for _, c := range apReadCases(*cases) {
		obs := apObs{apCase: c, Shape: "viper", Hist: make([]int, len(c.W)), Fs: *fsMode, Fds0: fds0, dir: dir}
		// file layout variations, rotating with the seed
		obs.lay = apLayout{NoFinalNL: (c.ID/3+seed)%4 == 0, Big: (c.ID/7+seed)%3 == 0 || len(c.W) >= 40,
			Rel: *fsMode == "os" && (c.ID/5+seed)%2 == 0,
			Hdr:      (c.ID/2+seed)%3 == 0,
			SmallBuf: c.Kind == "json" && (c.ID/4+seed)%2 == 0}
		// an entry longer than 64 KiB with the size option raised: every 4th cell of the kinds that can carry one
		// (every 2nd for grpc/json, the one kind whose scanner needs the option)
		if apOversizeKind(c.Kind) && ((c.ID/6+seed)%4 == 0 || (c.Kind == "grpcjson" && (c.ID/6+seed)%2 == 0)) {
			obs.lay.Oversize = []int{70000, 200000}[(c.ID/2)%2]
			obs.lay.OverAt = (c.ID / 13) % len(c.W)
			obs.lay.RaiseOpt = true
			// control: option NOT raised => the provider must fail cleanly (no hang, sink closed)
			if c.Kind == "grpcjson" && c.Cut == 0 && (c.ID/24+seed)%2 == 0 {
				obs.lay.RaiseOpt = false
				obs.Reject = true
			}
		}
		if *fsMode == "fault" {
			opts := []apFault{{"close", 0}, {"read", 1}, {"read", 2}, {"read", 3}, {"seek", 1}, {"seek", 2}, {"open", 0}}
			if c.Kind == "httpscn" || c.Kind == "grpcscn" {
				opts = []apFault{{"close", 0}, {"read", 1}, {"read", 2}, {"stat", 0}, {"open", 0}}
			}
			obs.fault = opts[(c.ID/9+seed)%len(opts)]
			// a source that cannot seek (FIFO, pipe): half of the fault runs of the cells whose bounds lie inside the
			// first pass, for the kinds that do not peek into their file
			if (c.Kind == "uri" || c.Kind == "raw" || c.Kind == "uripost" || c.Kind == "grpcjson") && c.Cut == 0 &&
				c.Bounded && c.Expected <= c.Entries && (c.ID/9+seed)%2 == 0 {
				obs.fault = apFault{"noseek", 0}
			}
			obs.Fault = obs.fault.String()
			obs.lay.Oversize, obs.Reject = 0, false // one deviation at a time
		}
		obs.Layout = obs.lay.String()
		obs.OverAt = -1
		if obs.lay.Oversize > 0 {
			obs.OverAt = obs.lay.OverAt
		}
		if (c.ID+seed)%2 == 1 {
			obs.Shape = "yaml"
		}
		obs.Via = "own"
		if (c.ID/2+seed)%3 == 0 && (c.Kind == "uri" || c.Kind == "raw" || c.Kind == "uripost" || c.Kind == "jsonline" || c.Kind == "jsonarray") {
			obs.Via = "http+decoder"
		}
		if blocked >= *maxBlocked {
			obs.Skipped = true
		} else {
			apDirect(fs, &obs, *hang)
			if obs.stuck() {
				// hang rule: confirm once with a fresh provider
				second := apObs{apCase: c, Shape: obs.Shape, Via: obs.Via, Hist: make([]int, len(c.W)),
					Fs: obs.Fs, Layout: obs.Layout, Fds0: obs.Fds0, lay: obs.lay, dir: obs.dir, Reject: obs.Reject, OverAt: obs.OverAt, Fault: obs.Fault, fault: obs.fault}
				apDirect(fs, &second, *hang)
				second.Attempts = 2
				obs = second
			}
			if c.Cut == 0 && obs.BuildErr == "" && obs.RunClass != "panic" && !obs.stuck() && !obs.Reject && obs.Fault == "" {
				apEngine(fs, &obs, *hang)
				if !obs.EngRet || !obs.EngWait {
					apEngine(fs, &obs, *hang)
					obs.EngTries = 2
				}
			}
			if obs.stuck() || (obs.Eng && (!obs.EngRet || !obs.EngWait)) {
				blocked++
			}
		}
		if obs.file != "" {
			_ = fs.Fs.Remove(obs.file)
		}
		obs.Fds = apOpenFds()
		b, err := json.Marshal(obs)
		if err != nil {
			panic(err)
		}
		w.Write(b)
		w.WriteByte('\n')
		w.Flush()
	}
	o.Close()
	os.Exit(0) // abandoned goroutines (blocked or spinning) die here
}

// stuck: the attempt ran into the hang limit somewhere (Run not back, a consumer still inside Acquire,
// or the sink still open and empty after the cancel)
func (o *apObs) stuck() bool {
	return o.BuildErr == "" && (!o.RunRet || !o.ConsDone || (o.Cancelled && o.Drained < 0))
}

func apConf(fs afero.Fs, obs *apObs) (interface{}, error) {
	m, file, err := apRender(fs, obs.apCase, obs.dir, obs.lay)
	if err != nil {
		return nil, err
	}
	obs.file = file
	if obs.Via == "http+decoder" {
		// the generic registration `type: http` with an explicit decoder
		dec := map[string]string{"uri": "uri", "raw": "raw", "uripost": "uripost", "jsonline": "jsonline", "jsonarray": "jsonline"}
		m["type"], m["decoder"] = "http", dec[obs.Kind]
	}
	if obs.Shape == "yaml" {
		return apYAMLShape(m), nil
	}
	return m, nil
}

// apOpenFds: number of open file descriptors of this process (-1 where /proc is not available)
func apOpenFds() int {
	ents, err := os.ReadDir("/proc/self/fd")
	if err != nil {
		return -1
	}
	return len(ents)
}

func apClass(err error) string {
	switch {
	case err == nil:
		return "nil"
	case errors.Is(err, context.Canceled):
		return "ctx"
	}
	return "err"
}

// apDirect: Provider.Run + nc consumers in Acquire loops.
func apDirect(fs *apFs, obs *apObs, hang time.Duration) {
	obs.Attempts = 1
	conf, err := apConf(fs.Fs, obs) // the driver writes through the inner fs
	fs.begin(obs.fault)
	defer func() {
		st := fs.stats()
		obs.Rewinds, obs.Opens, obs.Closes, obs.Reads, obs.KBytes, obs.FaultsHit =
			st.Rewinds, st.Opens, st.Closes, st.Reads, int(st.Bytes/1024), st.Faults
	}()
	if err != nil {
		obs.BuildErr = err.Error()
		return
	}
	var holder struct {
		Ammo core.Provider `config:"ammo"`
	}
	wrap := interface{}(map[string]interface{}{"ammo": conf})
	if obs.Shape == "yaml" {
		wrap = map[interface{}]interface{}{"ammo": conf}
	}
	if err := config.Decode(wrap, &holder); err != nil {
		obs.BuildErr = "decode: " + err.Error()
		return
	}
	p := holder.Ammo
	if p == nil {
		obs.BuildErr = "decode: nil provider"
		return
	}
	c := obs.apCase
	n := len(c.W)
	ctx, cancel := context.WithCancel(context.Background())
	defer cancel()
	var progress atomic.Int64
	touch := func() { progress.Store(time.Now().UnixNano()) }
	touch()

	var reserved, count, eofs, unknown, cancelledAt atomic.Int64
	if c.Stop == 0 {
		// cut = -1: cancelled before Run starts
		cancelledAt.Store(time.Now().UnixNano())
		cancel()
	}
	var runErr error
	var runAt atomic.Int64
	runDone := make(chan struct{})
	var runPanic interface{}
	go func() {
		defer func() {
			// a panic in Run would take the whole child down: it is an observation (class "panic")
			if r := recover(); r != nil {
				runPanic = r
				runAt.Store(time.Now().UnixNano())
				touch()
				close(runDone)
			}
		}()
		runErr = p.Run(ctx, core.ProviderDeps{Log: zap.NewNop(), PoolID: "c08"})
		runAt.Store(time.Now().UnixNano())
		touch()
		close(runDone)
	}()

	hist := make([]atomic.Int64, n)
	var fpMu sync.Mutex
	fps, varied := map[int]uint64{}, map[int]bool{}
	var wg sync.WaitGroup
	for i := 0; i < c.NC; i++ {
		wg.Add(1)
		go func() {
			defer wg.Done()
			for {
				// a slot is reserved before Acquire so that never more than stop items are taken; a slot that
				// ended in ok=false is given back, and a consumer stops only when stop items were really taken
				if reserved.Add(1) > int64(c.Stop) {
					reserved.Add(-1)
					if count.Load() >= int64(c.Stop) {
						return // the cut: this consumer stops taking
					}
					time.Sleep(20 * time.Microsecond)
					continue
				}
				a, ok := p.Acquire()
				if !ok {
					reserved.Add(-1)
					eofs.Add(1)
					touch()
					return
				}
				if j, fp := apProject(a, n); j >= 0 {
					hist[j].Add(1)
					fpMu.Lock()
					if first, seen := fps[j]; !seen {
						fps[j] = fp
					} else if first != fp {
						varied[j] = true
					}
					fpMu.Unlock()
				} else {
					unknown.Add(1)
				}
				p.Release(a)
				touch()
				if count.Add(1) == int64(c.Stop) {
					cancelledAt.Store(time.Now().UnixNano())
					cancel()
				}
			}
		}()
	}
	consDone := make(chan struct{})
	go func() { wg.Wait(); close(consDone) }()

	waitBoth := func() (bool, bool) {
		rd, cd := false, false
		rdc, cdc := runDone, consDone
		tick := time.NewTicker(10 * time.Millisecond)
		defer tick.Stop()
		for !(rd && cd) {
			select {
			case <-rdc:
				rd = true
				rdc = nil
			case <-cdc:
				cd = true
				cdc = nil
			case <-tick.C:
				if time.Since(time.Unix(0, progress.Load())) > hang {
					return rd, cd
				}
			}
		}
		return rd, cd
	}
	rd, cd := waitBoth()
	obs.RunRet, obs.ConsDone = rd, cd
	obs.Count = int(count.Load())
	obs.Eofs = int(eofs.Load())
	obs.Unknown = int(unknown.Load())
	fpMu.Lock()
	obs.Variants = len(varied)
	fpMu.Unlock()
	obs.Cancelled = cancelledAt.Load() != 0
	for j := range hist {
		obs.Hist[j] = int(hist[j].Load())
	}
	if rd {
		obs.RunClass = apClass(runErr)
		if runErr != nil {
			obs.RunErr = runErr.Error()
		}
		if runPanic != nil {
			obs.RunClass, obs.RunErr = "panic", fmt.Sprint(runPanic)
		}
	}
	if !(rd && cd) {
		return // blocked: goroutines abandoned (deferred cancel releases what honours the context)
	}
	if obs.Cancelled {
		// after the cut: the sink must be closed once the buffered rest is drained
		type dr struct {
			n  int
			ok bool
		}
		ch := make(chan dr, 1)
		go func() {
			k := 0
			for k < 100000 {
				_, ok := p.Acquire()
				if !ok {
					ch <- dr{k, true}
					return
				}
				k++
			}
			ch <- dr{k, false}
		}()
		select {
		case r := <-ch:
			obs.Drained, obs.EofAfter = r.n, r.ok
		case <-time.After(hang):
			obs.Drained, obs.EofAfter = -1, false
		}
		if d := runAt.Load() - cancelledAt.Load(); d > 0 {
			obs.RetUs = int(d / 1000)
		}
	}
}

// apEngine: a real engine run over the same provider config, counting mock gun, discard aggregator.
func apEngine(fs *apFs, obs *apObs, hang time.Duration) {
	defer func() {
		st := fs.stats()
		obs.EngRewinds, obs.EngOpens = st.Rewinds, st.Opens
	}()
	obs.Eng, obs.EngTries = true, 1
	obs.EngRet, obs.EngWait, obs.EngClass, obs.EngErr, obs.EngShots = false, false, "", "", 0
	conf, err := apConf(fs.Fs, obs)
	fs.begin(apFault{})
	if err != nil {
		obs.EngErr = err.Error()
		return
	}
	c := obs.apCase
	pool := map[string]interface{}{
		"id":      fmt.Sprintf("c%d", c.ID),
		"ammo":    conf,
		"result":  map[string]interface{}{"type": "discard"},
		"gun":     map[string]interface{}{"type": "vmock"},
		"rps":     map[string]interface{}{"type": "once", "times": c.Cap},
		"startup": map[string]interface{}{"type": "once", "times": c.NC},
	}
	var ec engine.Config
	var root interface{} = map[string]interface{}{"pools": []interface{}{pool}}
	if obs.Shape == "yaml" {
		delete(pool, "ammo")
		yp := apYAMLShape(pool).(map[interface{}]interface{})
		yp["ammo"] = conf
		root = map[interface{}]interface{}{"pools": []interface{}{yp}}
	}
	if err := config.DecodeAndValidate(root, &ec); err != nil {
		obs.EngErr = "decode: " + err.Error()
		return
	}
	shots := &atomic.Int64{}
	apShots.Store(shots)
	m := engine.Metrics{Request: &monitoring.Counter{}, Response: &monitoring.Counter{},
		InstanceStart: &monitoring.Counter{}, InstanceFinish: &monitoring.Counter{}}
	eng := engine.New(zap.NewNop(), m, ec)
	ctx, cancel := context.WithCancel(context.Background())
	defer cancel()
	t0 := time.Now()
	done := make(chan error, 1)
	go func() { done <- eng.Run(ctx) }()
	// progress = the shot counter moves
	last, lastAt := int64(-1), time.Now()
	tick := time.NewTicker(10 * time.Millisecond)
	defer tick.Stop()
wait:
	for {
		select {
		case err := <-done:
			obs.EngRet = true
			obs.EngClass = apClass(err)
			if err != nil {
				obs.EngErr = err.Error()
			}
			break wait
		case <-tick.C:
			if s := shots.Load(); s != last {
				last, lastAt = s, time.Now()
			} else if time.Since(lastAt) > hang {
				break wait
			}
		}
	}
	obs.EngUs = int(time.Since(t0) / time.Microsecond)
	obs.EngShots = int(shots.Load())
	if !obs.EngRet {
		return
	}
	wd := make(chan struct{})
	go func() { eng.Wait(); close(wd) }()
	select {
	case <-wd:
		obs.EngWait = true
	case <-time.After(hang):
	}
	obs.EngShots = int(shots.Load())
}
