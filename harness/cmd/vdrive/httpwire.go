// vdrive httpwire: C09 conformance driver.
//
//	-mode cases : reads the TLC-generated case file (HttpWireGen), renders every abstract case c into an
//	              ammo file of c.fmt (in-memory fs) + provider config (`headers` option) + gun config
//	              (ssl, disable-compression), fires it through the REAL provider and the REAL `http` gun
//	              (both built by the registered factories via config decoding, one instance) at the
//	              in-process target, and records what the target saw.  A decoy server listens on the
//	              address the ammo's Host names: a request must never go there.
//	-mode conn  : N instances (one gun each from the factory) x R requests, keep-alive on/off, http/https;
//	              records the target's ConnState log and which instance sent which request.
//
// Renders and records only; the expected wire record and every comparison live in
// spec/HttpWire.tla / spec/HttpConn.tla (TraceHttpWire.tla, TraceHttpConn.tla).
package main

import (
	"context"
	"encoding/json"
	"flag"
	"fmt"
	"net"
	"net/http"
	"os"
	"sort"
	"strings"
	"sync"
	"time"

	"github.com/spf13/afero"
	phttp "github.com/yandex/pandora/components/guns/http"
	"github.com/yandex/pandora/core"
	"go.uber.org/zap"

	"verifharness/internal/targets"
	"verifharness/internal/vt"
)

func init() { register("httpwire", httpwireMain) }

type hwHV struct {
	N string `json:"n"`
	V string `json:"v"`
}

type hwCaseC struct {
	Fmt      string `json:"fmt"`
	SSL      bool   `json:"ssl"`
	Compress bool   `json:"compress"`
	Method   string `json:"method"`
	URI      string `json:"uri"`
	Host     bool   `json:"host"`
	Ehdr     []hwHV `json:"ehdr"`
	Opts     []hwHV `json:"opts"`
	Body     string `json:"body"`
	TName    bool   `json:"tname"`   // the gun's target is given by name (localhost:port)
	Preload  *bool  `json:"preload"` // request-target cases: how the provider reads the file (absent: rotates with the case id)
	Gun      string `json:"gun"`     // "" (http gun) | "connect" | "http2"
	H2       *bool  `json:"h2"`      // the (TLS) target offers HTTP/2 next to HTTP/1.1 (absent: an HTTP/1.1-only target)
	CSSL     bool   `json:"cssl"`    // connect gun: option connect-ssl
	CStatus  int    `json:"cstatus"` // connect gun: what the proxy answers to CONNECT
	MW       *struct {
		Name string `json:"name"` // headerName of header/date ("" = default)
		Loc  string `json:"loc"`  // location ("" = default, UTC)
	} `json:"mw"`
	Side *struct {
		AnswLog string `json:"answlog"` // off | all | warning | error
		Status  int    `json:"status"`  // what the target answers
		Trace   bool   `json:"trace"`   // httptrace dump + trace
	} `json:"side"`
}

type hwCase struct {
	ID int             `json:"id"`
	C  json.RawMessage `json:"c"`
}

type hwObs struct {
	N      int              `json:"n"`
	Server string           `json:"server"`
	TLS    bool             `json:"tls"`
	Method string           `json:"method"`
	URI    string           `json:"uri"`
	Host   string           `json:"host"`
	Hdr    []targets.Header `json:"hdr"`
	Body   string           `json:"body"`
	Proto  string           `json:"proto"` // protocol version the request arrived in ("HTTP/1.1", "HTTP/2.0"; "" if none arrived)
	SNI    string           `json:"sni"` // TLS server name of the connection, projected ("" none, TARGETHOST = the target's name)
	// CONNECTs the proxy targets saw while the case ran
	Connects []hwConnect `json:"connects"`
	// instants (unix seconds, read in the middleware's location) of the header values that are HTTP dates; those
	// values appear as "DATE" in hdr
	Dates []int `json:"dates"`
}

type hwConnect struct {
	Method string `json:"method"`
	URI    string `json:"uri"`  // request-target, projected: the gun's target -> "GUNTARGET"
	Host   string `json:"host"` // likewise
	TLS    bool   `json:"tls"`  // the client spoke TLS to the proxy
}

type hwOut struct {
	ID      int             `json:"id"`
	K       int             `json:"k"` // multi-entry file cases: which entry this line reports (1-based), else 0
	C       json.RawMessage `json:"c"`
	Obs     hwObs           `json:"obs"`
	Samples []hwSample      `json:"samples"`
	Acq     int             `json:"acq"`  // ammo the provider handed out for this file
	Err     string          `json:"err"`  // provider / decoding error text, "" if none
	Panic   string          `json:"panic"` // what Shoot panicked with, "" if it returned
	T0      int             `json:"t0"`   // clock (unix seconds) read before the ammo was acquired ...
	T1      int             `json:"t1"`   // ... and after the shot returned
	Answ    int             `json:"answ"` // records the gun's answer log gained during the case (0 without answlog)
	File    string          `json:"file"` // the rendered ammo file (evidence / replay)
	Via     string          `json:"via"`  // config map shape used for decoding
}

const hwOptHostName = "opt.host.test"
const hwAmmoHost2Name = "ammo2.host.test:8080" // a second Host an ammo file may switch to (never dialled)

type hwEnv struct {
	rec        *targets.Recorder
	plain      *targets.HTTPTarget
	tls        *targets.HTTPTarget
	decoy      *targets.HTTPTarget
	decoyTLS   *targets.HTTPTarget
	h2         *targets.HTTPTarget // TLS target offering h2 and http/1.1
	h2on       bool                // the case being observed runs against the h2-capable target
	log        *zap.Logger
	fs         afero.Fs
	guns       map[string]core.Gun
	agg        *hwAgg
	gunErrors  map[string]string
	targetName string                          // host name the gun's target was given by ("" = by address) for the case being observed
	dateLoc    *time.Location                  // location of the header/date middleware of the case being observed (nil: none)
	answDir    string                          // directory of the guns' answer logs
	gunTarget  string                          // target of the gun of the case being observed (projection of CONNECT lines)
	proxies    map[string]*targets.ProxyTarget // CONNECT proxies in front of the targets, by (connect-ssl, ssl, status)
}

func hwNewEnv() *hwEnv {
	rec := &targets.Recorder{}
	e := &hwEnv{rec: rec, log: zap.NewNop(), fs: hwImport(), guns: map[string]core.Gun{}, agg: &hwAgg{}, gunErrors: map[string]string{}}
	e.plain = targets.NewHTTP("target", false, rec)
	e.tls = targets.NewHTTP("target", true, rec)
	e.decoy = targets.NewHTTP("decoy", false, rec)
	e.decoyTLS = targets.NewHTTP("decoy", true, rec)
	e.h2 = targets.NewHTTP2("target", rec)
	for _, t := range []*targets.HTTPTarget{e.plain, e.tls, e.decoy, e.decoyTLS, e.h2} {
		if !targets.IsLoopback(t.Addr()) {
			panic("target not on loopback: " + t.Addr())
		}
	}
	return e
}

// answPath is the answer-log file of the side-channel gun with that filter.
func (e *hwEnv) answPath(filter string, trace bool) string {
	return fmt.Sprintf("%s/answ_%s_%v.log", e.answDir, filter, trace)
}

// answRecords counts the records of an answer log: the gun writes one REQUEST entry (and one RESPONSE entry) per
// logged exchange.
func (e *hwEnv) answRecords(path string) int {
	b, err := os.ReadFile(path)
	if err != nil {
		return -1
	}
	return strings.Count(string(b), "\tREQUEST:")
}

// proxy returns the CONNECT proxy for (connect-ssl, ssl of the origin, answer to CONNECT): it tunnels to the
// recording target of that scheme.
func (e *hwEnv) proxy(cssl, ssl bool, status int) *targets.ProxyTarget {
	k := fmt.Sprintf("%v/%v/%d", cssl, ssl, status)
	if e.proxies == nil {
		e.proxies = map[string]*targets.ProxyTarget{}
	}
	if p, ok := e.proxies[k]; ok {
		return p
	}
	p := targets.NewProxy("proxy", cssl, e.target(ssl).Addr(), status, e.rec)
	if !targets.IsLoopback(p.Addr()) {
		panic("proxy not on loopback")
	}
	e.proxies[k] = p
	return p
}

func (e *hwEnv) close() {
	for _, p := range e.proxies {
		p.Close()
	}
	e.plain.Close()
	e.h2.Close()
	e.tls.Close()
	e.decoy.Close()
	e.decoyTLS.Close()
}

func (e *hwEnv) target(ssl bool) *targets.HTTPTarget {
	if ssl && e.h2on {
		return e.h2
	}
	if ssl {
		return e.tls
	}
	return e.plain
}

// ammoHost is what the entry's Host says: the address of a live decoy speaking the same scheme.
func (e *hwEnv) ammoHost(ssl bool) string {
	if ssl {
		return e.decoyTLS.Addr()
	}
	return e.decoy.Addr()
}

func (e *hwEnv) renderHost(tok string, ssl bool) string {
	switch tok {
	case "AMMOHOST":
		return e.ammoHost(ssl)
	case "OPTHOST":
		return hwOptHostName
	case "AMMOHOST2":
		return hwAmmoHost2Name
	}
	return tok
}

// projectHost maps the concrete Host seen by the target back to the specification's token.
func (e *hwEnv) projectHost(h string, ssl bool) string {
	switch h {
	case e.ammoHost(ssl):
		return "AMMOHOST"
	case hwOptHostName:
		return "OPTHOST"
	case hwAmmoHost2Name:
		return "AMMOHOST2"
	}
	want := targets.HostOnly(e.target(ssl).Addr())
	if e.targetName != "" {
		want = e.targetName
	}
	if h == want {
		return "TARGETHOST"
	}
	return "?" + h
}

func (e *hwEnv) gun(ssl, compress bool, extra map[string]interface{}, key string, yamlShape bool) (core.Gun, error) {
	k := fmt.Sprintf("%v/%v/%s", ssl, compress, key)
	if g, ok := e.guns[k]; ok {
		return g, nil
	}
	m := map[string]interface{}{
		"type":                "http",
		"target":              e.target(ssl).Addr(),
		"ssl":                 ssl,
		"disable-compression": !compress,
	}
	for kk, v := range extra {
		m[kk] = v
	}
	f, err := hwDecodeGunFactory(m, yamlShape)
	if err != nil {
		return nil, err
	}
	g, err := hwNewGun(f, e.agg, context.Background(), e.log, 0, &hwShared{})
	if err != nil {
		return nil, err
	}
	e.guns[k] = g
	return g, nil
}

// hwRenderAmmo renders the abstract entry into the bytes of an ammo file of its format.
func hwRenderAmmo(c *hwCaseC, ammoHost string) (typ string, file string) {
	var b strings.Builder
	switch c.Fmt {
	case "uri", "uripost":
		if c.Host {
			fmt.Fprintf(&b, "[Host: %s]\n", ammoHost)
		}
		for _, h := range c.Ehdr {
			fmt.Fprintf(&b, "[%s: %s]\n", h.N, h.V)
		}
		if c.Fmt == "uri" {
			fmt.Fprintf(&b, "%s\n", c.URI)
		} else {
			fmt.Fprintf(&b, "%d %s\n%s\n", len(c.Body), c.URI, c.Body)
		}
		return c.Fmt, b.String()
	case "raw":
		var r strings.Builder
		fmt.Fprintf(&r, "%s %s HTTP/1.1\r\n", c.Method, c.URI)
		if c.Host {
			fmt.Fprintf(&r, "Host: %s\r\n", ammoHost)
		}
		for _, h := range c.Ehdr {
			fmt.Fprintf(&r, "%s: %s\r\n", h.N, h.V)
		}
		if c.Body != "" {
			fmt.Fprintf(&r, "Content-Length: %d\r\n", len(c.Body))
		}
		r.WriteString("\r\n")
		r.WriteString(c.Body)
		fmt.Fprintf(&b, "%d\n%s\n", r.Len(), r.String())
		return "raw", b.String()
	case "json":
		m := map[string]interface{}{"method": c.Method, "uri": c.URI}
		if c.Host {
			m["host"] = ammoHost
		}
		if len(c.Ehdr) > 0 {
			hm := map[string]string{}
			for _, h := range c.Ehdr {
				hm[h.N] = h.V
			}
			m["headers"] = hm
		}
		if c.Body != "" {
			m["body"] = c.Body
		}
		js, err := json.Marshal(m)
		if err != nil {
			panic(err)
		}
		return "http/json", string(js) + "\n"
	}
	panic("format " + c.Fmt)
}

func (e *hwEnv) runCase(cs hwCase) hwOut {
	var c hwCaseC
	if err := json.Unmarshal(cs.C, &c); err != nil {
		panic(err)
	}
	out := hwOut{ID: cs.ID, C: cs.C, Obs: hwObs{Hdr: []targets.Header{}, Connects: []hwConnect{}, Dates: []int{}}, Samples: []hwSample{}}
	yamlShape := cs.ID%2 == 1
	out.Via = map[bool]string{false: "viper-map", true: "yaml-map"}[yamlShape]
	typ, file := hwRenderAmmo(&c, e.ammoHost(c.SSL))
	out.File = file
	path := fmt.Sprintf("/hw/c%d.ammo", cs.ID)
	if err := afero.WriteFile(e.fs, path, []byte(file), 0o644); err != nil {
		panic(err)
	}
	defer e.fs.Remove(path)
	opts := []interface{}{}
	for _, o := range c.Opts {
		opts = append(opts, fmt.Sprintf("[%s: %s]", o.N, e.renderHost(o.V, c.SSL)))
	}
	pm := map[string]interface{}{"type": typ, "file": path, "limit": 1}
	if len(opts) > 0 {
		pm["headers"] = opts
	}
	// every registered way to the same decoder: the format's own provider type, the generic `http` provider with
	// `decoder:`, and (uri only) the inline `uris:` list instead of a file; streaming and preloaded
	switch (cs.ID / 2) % 3 {
	case 1:
		pm["type"] = "http"
		pm["decoder"] = map[string]string{"uri": "uri", "uripost": "uripost", "raw": "raw", "http/json": "jsonline"}[typ]
		out.Via += " type=http+decoder"
	case 2:
		if typ == "uri" {
			delete(pm, "file")
			lines := []interface{}{}
			for _, ln := range strings.Split(strings.TrimRight(file, "\n"), "\n") {
				lines = append(lines, ln)
			}
			pm["uris"] = lines
			out.Via += " uris-inline"
		}
	}
	preload := (cs.ID/6)%2 == 1
	if c.Preload != nil {
		preload = *c.Preload
	}
	if preload {
		pm["preload"] = true
		out.Via += " preload"
	}
	if c.MW != nil {
		mw := map[string]interface{}{"type": "header/date"}
		if c.MW.Name != "" {
			mw["headerName"] = c.MW.Name
		}
		if c.MW.Loc != "" {
			mw["location"] = c.MW.Loc
		}
		pm["middlewares"] = []interface{}{hwShape(mw, yamlShape)}
		e.dateLoc = time.UTC
		if c.MW.Loc != "" {
			loc, lerr := time.LoadLocation(c.MW.Loc)
			if lerr != nil {
				panic(lerr)
			}
			e.dateLoc = loc
		}
	} else {
		e.dateLoc = nil
	}
	prov, err := hwDecodeProvider(pm, yamlShape)
	if err != nil {
		out.Err = "provider: " + err.Error()
		return out
	}
	var g core.Gun
	gunTarget := ""
	e.h2on = c.H2 != nil && *c.H2
	if c.Gun == "http2" {
		// the http2 gun against the target of the case (h2-capable or HTTP/1.1 only); it has no `ssl: false`
		g, err = e.gun(true, c.Compress, map[string]interface{}{"type": "http2"}, fmt.Sprintf("http2/%v", e.h2on), yamlShape)
		out.Via += " gun=http2"
	} else if e.h2on {
		g, err = e.gun(c.SSL, c.Compress, nil, "h2target", yamlShape)
		out.Via += " target-offers-h2"
	} else if c.Gun == "connect" {
		// the connect gun's target is the proxy; the tunnel leads to the recording target of the case's scheme
		px := e.proxy(c.CSSL, c.SSL, c.CStatus)
		gunTarget = px.Addr()
		g, err = e.gun(c.SSL, c.Compress, map[string]interface{}{"type": "connect", "target": px.Addr(), "connect-ssl": c.CSSL},
			fmt.Sprintf("connect/%v/%d", c.CSSL, c.CStatus), yamlShape)
		out.Via += " gun=connect"
	} else if c.Side != nil {
		// side channels on: the gun's answer log (own file per filter) and httptrace; the target answers c.Side.Status
		extra := map[string]interface{}{"httptrace": map[string]interface{}{"dump": c.Side.Trace, "trace": c.Side.Trace}}
		if c.Side.AnswLog != "off" {
			extra["answlog"] = map[string]interface{}{"enabled": true, "path": e.answPath(c.Side.AnswLog, c.Side.Trace), "filter": c.Side.AnswLog}
		}
		g, err = e.gun(c.SSL, c.Compress, extra, fmt.Sprintf("side/%s/%v", c.Side.AnswLog, c.Side.Trace), yamlShape)
		e.target(c.SSL).Set(targets.Behaviour{Kind: "status", Status: c.Side.Status})
		defer e.target(c.SSL).Set(targets.Behaviour{})
		out.Via += " side-channels"
	} else if c.TName {
		// the same target, named: localhost resolves to the loopback address the target listens on
		_, port, _ := net.SplitHostPort(e.target(c.SSL).Addr())
		g, err = e.gun(c.SSL, c.Compress, map[string]interface{}{"target": "localhost:" + port}, "tname", yamlShape)
		out.Via += " target-by-name"
	} else {
		g, err = e.gun(c.SSL, c.Compress, nil, "", yamlShape)
	}
	if err != nil {
		out.Err = "gun: " + err.Error()
		return out
	}
	e.targetName = ""
	if c.TName {
		e.targetName = "localhost"
	}
	answBefore := 0
	if c.Side != nil && c.Side.AnswLog != "off" {
		answBefore = e.answRecords(e.answPath(c.Side.AnswLog, c.Side.Trace))
	}
	e.rec.Drain()
	e.agg.drain()
	out.T0 = vt.Small(time.Now().Unix())
	stop := hwRunProvider(prov, e.log)
	for {
		a, ok := prov.Acquire()
		if !ok {
			break
		}
		out.Acq++
		func() {
			defer func() { // "a failed sample, not a crash"
				if r := recover(); r != nil {
					out.Panic = fmt.Sprintf("%v", r)
				}
			}()
			g.Shoot(a)
		}()
		prov.Release(a)
		if out.Acq > 3 {
			break
		}
	}
	if err := stop(); err != nil {
		out.Err = "provider run: " + err.Error()
	}
	out.T1 = vt.Small(time.Now().Unix())
	if c.Side != nil && c.Side.AnswLog != "off" {
		out.Answ = e.answRecords(e.answPath(c.Side.AnswLog, c.Side.Trace)) - answBefore
	}
	out.Samples = append(out.Samples, e.agg.drain()...)
	e.gunTarget = gunTarget
	e.observe(&out, c.SSL)
	return out
}

// observe fills out.Obs from what the servers recorded since the last drain.
func (e *hwEnv) observe(out *hwOut, ssl bool) {
	if out.Obs.Connects == nil {
		out.Obs.Connects = []hwConnect{}
	}
	if out.Obs.Dates == nil {
		out.Obs.Dates = []int{}
	}
	proj := func(s string) string {
		if s == e.gunTarget && s != "" {
			return "GUNTARGET"
		}
		return "?" + s
	}
	for _, ev := range e.rec.Drain() {
		if ev.Ev == "Connect" {
			out.Obs.Connects = append(out.Obs.Connects, hwConnect{Method: ev.Method, URI: proj(ev.URI), Host: proj(ev.Host), TLS: ev.TLS})
		}
		if ev.Ev != "Req" {
			continue
		}
		out.Obs.N++
		if out.Obs.N > 1 {
			continue
		}
		out.Obs.Server, out.Obs.TLS, out.Obs.Method, out.Obs.URI = ev.Server, ev.TLS, ev.Method, ev.URI
		out.Obs.Host = e.projectHost(ev.Host, ssl)
		out.Obs.SNI = ev.SNI
		if ev.SNI != "" {
			out.Obs.SNI = e.projectHost(ev.SNI, ssl)
		}
		out.Obs.Body = ev.Body
		out.Obs.Proto = ev.Proto
		out.Obs.Hdr = ev.Hdr
		if out.Obs.Hdr == nil {
			out.Obs.Hdr = []targets.Header{}
		}
		if e.dateLoc != nil {
			// projection: a value that is an HTTP date (http.TimeFormat) becomes the token DATE; its instant, read in
			// the middleware's location, travels as unix seconds
			for i := range out.Obs.Hdr {
				for j, v := range out.Obs.Hdr[i].V {
					if tm, perr := time.ParseInLocation(http.TimeFormat, v, e.dateLoc); perr == nil {
						out.Obs.Hdr[i].V[j] = "DATE"
						out.Obs.Dates = append(out.Obs.Dates, vt.Small(tm.Unix()))
					}
				}
			}
		}
		if len(ev.TE) > 0 {
			out.Obs.Hdr = append(out.Obs.Hdr, targets.Header{N: "Transfer-Encoding", V: ev.TE})
		}
	}
}

// ---------------------------------------------------------------------------------------- multi-entry files

type hwFileEntry struct {
	HL   []hwHV `json:"hl"` // header lines written before the entry (uri/uripost) / the entry's own fields (raw, json)
	URI  string `json:"uri"`
	Body string `json:"body"`
}

type hwFileC struct {
	Fmt     string        `json:"fmt"`
	SSL     bool          `json:"ssl"`
	Preload bool          `json:"preload"`
	Opts    []hwHV        `json:"opts"`
	Entries []hwFileEntry `json:"entries"`
	N       int           `json:"n"`      // re-used entries: instances (0: an ordinary file case)
	Rounds  int           `json:"rounds"` // ... rounds of acquire-all-then-shoot-all
}

// hwRenderFile renders a multi-entry ammo file: uri/uripost put the header lines between the entries, raw/json give
// every entry its own fields.
func (e *hwEnv) hwRenderFile(c *hwFileC) (typ, file string) {
	var b strings.Builder
	for _, en := range c.Entries {
		switch c.Fmt {
		case "uri", "uripost":
			for _, h := range en.HL {
				fmt.Fprintf(&b, "[%s: %s]\n", h.N, e.renderHost(h.V, c.SSL))
			}
			if c.Fmt == "uri" {
				fmt.Fprintf(&b, "%s\n", en.URI)
			} else {
				fmt.Fprintf(&b, "%d %s\n%s\n", len(en.Body), en.URI, en.Body)
			}
		case "raw":
			var r strings.Builder
			fmt.Fprintf(&r, "GET %s HTTP/1.1\r\n", en.URI)
			for _, h := range en.HL {
				fmt.Fprintf(&r, "%s: %s\r\n", h.N, e.renderHost(h.V, c.SSL))
			}
			if en.Body != "" {
				fmt.Fprintf(&r, "Content-Length: %d\r\n", len(en.Body))
			}
			r.WriteString("\r\n")
			r.WriteString(en.Body)
			fmt.Fprintf(&b, "%d\n%s\n", r.Len(), r.String())
		case "json", "jsonarray":
			m := map[string]interface{}{"method": "GET", "uri": en.URI}
			hm := map[string]string{}
			for _, h := range en.HL {
				if h.N == "Host" {
					m["host"] = e.renderHost(h.V, c.SSL)
				} else {
					hm[h.N] = h.V
				}
			}
			if len(hm) > 0 {
				m["headers"] = hm
			}
			if en.Body != "" {
				m["body"] = en.Body
			}
			js, err := json.Marshal(m)
			if err != nil {
				panic(err)
			}
			b.Write(js)
			b.WriteByte('\n')
		default:
			panic("format " + c.Fmt)
		}
	}
	if c.Fmt == "jsonarray" { // the same entries as ONE JSON array: the decoder keeps the decoded entries and cycles over them
		lines := strings.Split(strings.TrimRight(b.String(), "\n"), "\n")
		return "http/json", "[" + strings.Join(lines, ",\n") + "]\n"
	}
	return map[string]string{"uri": "uri", "uripost": "uripost", "raw": "raw", "json": "http/json"}[c.Fmt], b.String()
}

// runReuse: a SMALL file handed out again and again to n instances (own real gun each).  In every round all instances
// first acquire their ammo and only then shoot, concurrently: a request is delivered while the same entry has already
// been handed out again.  One line per request the target received (k = the entry its URI names) and one per shot
// whose sample reports a failure.
func (e *hwEnv) runReuse(cs hwCase) []hwOut {
	var c hwFileC
	if err := json.Unmarshal(cs.C, &c); err != nil {
		panic(err)
	}
	e.h2on = false
	yamlShape := cs.ID%2 == 1
	via := fmt.Sprintf("%s instances=%d rounds=%d acquire-all-then-shoot-all", map[bool]string{false: "viper-map", true: "yaml-map"}[yamlShape], c.N, c.Rounds)
	typ, file := e.hwRenderFile(&c)
	path := fmt.Sprintf("/hw/r%d.ammo", cs.ID)
	if err := afero.WriteFile(e.fs, path, []byte(file), 0o644); err != nil {
		panic(err)
	}
	defer e.fs.Remove(path)
	total := c.N * c.Rounds
	pm := map[string]interface{}{"type": typ, "file": path, "limit": total} // passes unlimited: the file is read again and again
	if c.Preload {
		pm["preload"] = true
		via += " preload"
	}
	blank := func(k int, msg string) hwOut {
		return hwOut{ID: cs.ID, K: k, C: cs.C, Obs: hwObs{Hdr: []targets.Header{}, Connects: []hwConnect{}, Dates: []int{}}, Samples: []hwSample{}, Err: msg, File: file, Via: via, Acq: total}
	}
	prov, err := hwDecodeProvider(pm, yamlShape)
	if err != nil {
		return []hwOut{blank(1, "provider: "+err.Error())}
	}
	newGun, err := hwDecodeGunFactory(map[string]interface{}{"type": "http", "target": e.target(c.SSL).Addr(), "ssl": c.SSL}, yamlShape)
	if err != nil {
		return []hwOut{blank(1, "gun: "+err.Error())}
	}
	shared := &hwShared{}
	guns := []core.Gun{}
	aggs := []*hwAgg{}
	for i := 0; i < c.N; i++ {
		aggs = append(aggs, &hwAgg{inst: i})
		g, gerr := hwNewGun(newGun, aggs[i], context.Background(), e.log, i, shared)
		if gerr != nil {
			return []hwOut{blank(1, "gun: "+gerr.Error())}
		}
		guns = append(guns, g)
	}
	e.rec.Drain()
	stop := hwRunProvider(prov, e.log)
	acq := 0
	for r := 0; r < c.Rounds; r++ {
		held := make([]core.Ammo, c.N)
		for i := 0; i < c.N; i++ { // everybody acquires ...
			a, ok := prov.Acquire()
			if !ok {
				break
			}
			acq++
			held[i] = a
		}
		var wg sync.WaitGroup
		for i := 0; i < c.N; i++ { // ... and only then everybody shoots, at the same time
			if held[i] == nil {
				continue
			}
			wg.Add(1)
			go func(i int) {
				defer wg.Done()
				guns[i].Shoot(held[i])
				prov.Release(held[i])
			}(i)
		}
		wg.Wait()
	}
	runErr := ""
	if err := stop(); err != nil {
		runErr = "provider run: " + err.Error()
	}
	for _, g := range guns {
		if cl, ok := g.(interface{ Close() error }); ok {
			_ = cl.Close()
		}
	}
	outs := []hwOut{}
	e.gunTarget, e.dateLoc, e.targetName = "", nil, ""
	for _, ev := range e.rec.Drain() { // one line per request the target received
		if ev.Ev != "Req" {
			continue
		}
		k := 0
		for j, en := range c.Entries {
			if en.URI == ev.URI {
				k = j + 1
			}
		}
		o := blank(k, runErr)
		if k == 0 {
			o.K, o.Err = 1, "request for an unknown entry: "+ev.URI
		}
		o.Obs.N = 1
		o.Obs.Server, o.Obs.TLS, o.Obs.Method, o.Obs.URI = ev.Server, ev.TLS, ev.Method, ev.URI
		o.Obs.Host = e.projectHost(ev.Host, c.SSL)
		o.Obs.SNI = ev.SNI
		o.Obs.Body = ev.Body
		o.Obs.Proto = ev.Proto
		if ev.Hdr != nil {
			o.Obs.Hdr = ev.Hdr
		}
		if len(ev.TE) > 0 {
			o.Obs.Hdr = append(o.Obs.Hdr, targets.Header{N: "Transfer-Encoding", V: ev.TE})
		}
		outs = append(outs, o)
	}
	for _, a := range aggs { // ... and one per shot that did not end with a complete answer
		for _, sm := range a.drain() {
			if sm.Proto == 200 && sm.Net == 0 {
				continue
			}
			o := blank(1, runErr)
			o.Samples = []hwSample{sm}
			outs = append(outs, o)
		}
	}
	for i := range outs {
		outs[i].Acq = acq
	}
	return outs
}

// runFile plays one multi-entry file through ONE provider (stream or preload) and one gun, entry after entry, and
// reports one line per entry.
func (e *hwEnv) runFile(cs hwCase) []hwOut {
	var c hwFileC
	if err := json.Unmarshal(cs.C, &c); err != nil {
		panic(err)
	}
	e.h2on = false
	yamlShape := cs.ID%2 == 1
	via := map[bool]string{false: "viper-map", true: "yaml-map"}[yamlShape]
	typ, file := e.hwRenderFile(&c)
	path := fmt.Sprintf("/hw/f%d.ammo", cs.ID)
	if err := afero.WriteFile(e.fs, path, []byte(file), 0o644); err != nil {
		panic(err)
	}
	defer e.fs.Remove(path)
	pm := map[string]interface{}{"type": typ, "file": path, "limit": len(c.Entries)}
	if len(c.Opts) > 0 {
		opts := []interface{}{}
		for _, o := range c.Opts {
			opts = append(opts, fmt.Sprintf("[%s: %s]", o.N, e.renderHost(o.V, c.SSL)))
		}
		pm["headers"] = opts
	}
	if c.Preload {
		pm["preload"] = true
		via += " preload"
	}
	outs := []hwOut{}
	fail := func(msg string) []hwOut {
		for k := range c.Entries {
			outs = append(outs, hwOut{ID: cs.ID, K: k + 1, C: cs.C, Obs: hwObs{Hdr: []targets.Header{}, Connects: []hwConnect{}, Dates: []int{}}, Samples: []hwSample{}, Err: msg, File: file, Via: via})
		}
		return outs
	}
	prov, err := hwDecodeProvider(pm, yamlShape)
	if err != nil {
		return fail("provider: " + err.Error())
	}
	g, err := e.gun(c.SSL, false, nil, "", yamlShape)
	if err != nil {
		return fail("gun: " + err.Error())
	}
	e.rec.Drain()
	e.agg.drain()
	stop := hwRunProvider(prov, e.log)
	acq := 0
	for {
		a, ok := prov.Acquire()
		if !ok {
			break
		}
		acq++
		g.Shoot(a)
		prov.Release(a)
		if acq <= len(c.Entries) {
			o := hwOut{ID: cs.ID, K: acq, C: cs.C, Obs: hwObs{Hdr: []targets.Header{}, Connects: []hwConnect{}, Dates: []int{}}, Samples: append([]hwSample{}, e.agg.drain()...), File: file, Via: via}
			e.gunTarget, e.dateLoc, e.targetName = "", nil, ""
			e.observe(&o, c.SSL)
			outs = append(outs, o)
		}
		if acq > len(c.Entries)+1 {
			break
		}
	}
	runErr := ""
	if err := stop(); err != nil {
		runErr = "provider run: " + err.Error()
	}
	for k := len(outs); k < len(c.Entries); k++ { // entries the provider never handed out
		outs = append(outs, hwOut{ID: cs.ID, K: k + 1, C: cs.C, Obs: hwObs{Hdr: []targets.Header{}, Connects: []hwConnect{}, Dates: []int{}}, Samples: []hwSample{}, File: file, Via: via})
	}
	for i := range outs {
		outs[i].Acq = acq
		outs[i].Err = runErr
	}
	return outs
}

func httpwireMain(args []string) {
	fl := flag.NewFlagSet("httpwire", flag.ExitOnError)
	mode := fl.String("mode", "cases", "cases | conn")
	casesPath := fl.String("cases", "", "TLC-generated case file (NDJSON)")
	outPath := fl.String("out", "", "output NDJSON")
	stride := fl.Int("stride", 1, "cases mode: run every stride-th case (offset by seed)")
	maxN := fl.Int("n", 4, "conn mode: instances 1..n")
	reqs := fl.Int("r", 5, "conn mode: requests per instance")
	_ = fl.Parse(args)
	w := vt.Create(*outPath)
	defer w.Close()
	switch *mode {
	case "cases":
		e := hwNewEnv()
		defer e.close()
		e.answDir = *outPath + ".answlog"
		if err := os.MkdirAll(e.answDir, 0o755); err != nil {
			panic(err)
		}
		defer os.RemoveAll(e.answDir)
		f, err := os.ReadFile(*casesPath)
		if err != nil {
			panic(err)
		}
		off := int(vt.Seed()) % *stride
		for i, ln := range strings.Split(strings.TrimSpace(string(f)), "\n") {
			if *stride > 1 && i%*stride != off {
				continue
			}
			var cs hwCase
			if err := json.Unmarshal([]byte(ln), &cs); err != nil {
				panic(err)
			}
			if strings.Contains(string(cs.C), `"rounds"`) {
				for _, o := range e.runReuse(cs) {
					w.Emit(o)
				}
				continue
			}
			if strings.Contains(string(cs.C), `"entries"`) {
				for _, o := range e.runFile(cs) {
					w.Emit(o)
				}
				continue
			}
			w.Emit(e.runCase(cs))
		}
	case "conn":
		hwConnMain(w, *maxN, *reqs)
	default:
		panic("mode")
	}
}

// ---------------------------------------------------------------------------------------- conn mode

type hwConnEv struct {
	Ev         string   `json:"ev"` // Run | Shoot | Conn | Req | End
	Run        int      `json:"run"`
	N          int      `json:"n"`
	R          int      `json:"r"`
	KeepAlive  bool     `json:"keepalive"`
	SSL        bool     `json:"ssl"`
	Inst       string   `json:"inst"`
	URI        string   `json:"uri"`
	Conn       string   `json:"conn"`
	State      string   `json:"state"`
	Proto      int      `json:"proto"`
	Net        int      `json:"net"`
	OK         bool     `json:"ok"`                 // Shoot / Req: the exchange ended with a complete answer (sample proto 200, net 0)
	Insts      []string `json:"insts,omitempty"`    // Run: the instances
	Opts       string   `json:"opts,omitempty"`     // Run: non-default client options of the gun
	GapMs      int      `json:"gap_ms"`             // Run: scripted idle gap between the shots of an instance
	IdleMs     int      `json:"idle_ms"`            // Run: the idle-conn-timeout the run configured (0: default)
	Gun        string   `json:"gun,omitempty"`      // Run / End: http | connect
	ConnectSSL bool     `json:"cssl"`               // Run / End: connect-ssl
	Shared     int      `json:"shared"`             // Run: shared-client.client-number (0: per-instance clients)
	Serial     bool     `json:"serial"`             // Run: the instances took turns
	Idx        int      `json:"idx"`                // Req: 0-based index (creation = Bind order) of the instance that shot it
	Host       string   `json:"host,omitempty"`     // Connect: Host of the CONNECT (projected)
	TLS        bool     `json:"tls"`                // Connect: the gun spoke TLS to the proxy
	Tolerant   bool     `json:"tolerant,omitempty"` // End: the run has a small response-header-timeout: exchanges may fail under load
}

// hwRecGun records which instance shot which request (the ammo's URI), then lets the real gun shoot.
type hwRecGun struct {
	core.Gun
	inst  string
	mu    *sync.Mutex
	shots *[]hwConnEv
	agg   *hwAgg // this instance's own aggregator view
}

func (g *hwRecGun) Shoot(a core.Ammo) {
	ha, ok := a.(phttp.Ammo)
	if !ok {
		panic(fmt.Sprintf("hwRecGun: ammo %T", a))
	}
	req, _ := ha.Request() // the sample acquired here is dropped; Request() is the only accessor of the URI
	uri := req.URL.RequestURI()
	g.Gun.Shoot(a)
	done := false
	if g.agg != nil {
		for _, s := range g.agg.peekNew() {
			done = s.Proto == 200 && s.Net == 0
		}
	}
	g.mu.Lock()
	*g.shots = append(*g.shots, hwConnEv{Ev: "Shoot", Inst: g.inst, URI: uri, OK: done})
	g.mu.Unlock()
}

// hwConnRun is one connection run: n instances x r requests, optional documented client options and a scripted
// idle gap between the shots of an instance.
type hwConnRun struct {
	ssl, ka bool
	n, r    int
	opts    map[string]interface{} // client options of the gun set to distinctive non-default values
	optNote string
	gap     time.Duration // every instance idles at least this long between two shots
	idleMs  int           // the idle-conn-timeout the options set, in ms (0: not set)
	connect bool          // connect gun through an in-process CONNECT proxy in front of the target
	cssl    bool          // ... option connect-ssl
	shared  int           // shared-client.client-number (0: per-instance clients)
	serial  bool          // the instances take turns: at most one exchange in flight
	http2   bool          // http2 gun against a target that offers h2 (always TLS)
}

func (cr hwConnRun) gunName() string {
	if cr.connect {
		return "connect"
	}
	if cr.http2 {
		return "http2"
	}
	return "http"
}

// hwSink receives the log lines of a connection run (the output file, or a buffer when runs execute in parallel).
type hwSink interface{ Emit(v interface{}) }

type hwBuf struct{ lines []interface{} }

func (b *hwBuf) Emit(v interface{}) { b.lines = append(b.lines, v) }

// hwClientOpts: every documented transport / dialer option of the http gun away from its default.  Everything that
// is NOT idle-conn-timeout gets a small distinctive value (all below hwOtherMax); idle-conn-timeout is given by the run.
const hwOtherMax = 450 * time.Millisecond

func hwClientOpts(idle string) (map[string]interface{}, string) {
	return map[string]interface{}{
			"response-header-timeout": "150ms",
			"expect-continue-timeout": "200ms",
			"tls-handshake-timeout":   "400ms",
			"idle-conn-timeout":       idle,
			"max-idle-conns":          7,
			"max-idle-conns-per-host": 3,
			"dial":                    map[string]interface{}{"timeout": "450ms", "keep-alive": "300ms", "fallback-delay": "100ms", "dual-stack": false},
		}, "idle-conn-timeout=" + idle + " response-header-timeout=150ms expect-continue-timeout=200ms tls-handshake-timeout=400ms " +
			"dial.timeout=450ms dial.keep-alive=300ms dial.fallback-delay=100ms max-idle-conns=7 max-idle-conns-per-host=3"
}

func hwConnMain(w *vt.Writer, maxN, reqs int) {
	seed := int(vt.Seed())
	run := 0
	for _, ssl := range []bool{false, true} {
		for _, ka := range []bool{true, false} {
			for n := 1; n <= maxN; n++ {
				run++
				hwConnOne(w, run, hwConnRun{ssl: ssl, ka: ka, n: n, r: reqs + (seed+run)%3})
			}
		}
	}
	// Keep-alive on, every documented client option away from its default.  (a) idle-conn-timeout huge, every OTHER
	// timeout small, idle gaps of 0 and of 3 x the largest other timeout: the instance must stay on its one connection;
	// (b) the converse: idle-conn-timeout small, gaps longer than it: every shot on a connection of its own (the option
	// is wired to the right field).  The runs sleep, so they execute in parallel and are logged in run order.
	type job struct {
		run int
		cr  hwConnRun
		buf *hwBuf
	}
	jobs := []job{}
	gap := 3 * hwOtherMax
	add := func(ssl bool, n int, idle string, idleMs int, g time.Duration) {
		run++
		o, note := hwClientOpts(idle)
		jobs = append(jobs, job{run: run, buf: &hwBuf{}, cr: hwConnRun{ssl: ssl, ka: true, n: n, r: 3, opts: o, optNote: note, gap: g, idleMs: idleMs}})
	}
	for _, ssl := range []bool{false, true} {
		add(ssl, 2, "10m", 600000, 0)
		for n := 1; n <= 2; n++ {
			add(ssl, n, "10m", 600000, gap)
		}
	}
	add(false, 2, "200ms", 200, gap)
	add(true, 1, "200ms", 200, gap)
	var wg sync.WaitGroup
	for i := range jobs {
		wg.Add(1)
		go func(j job) {
			defer wg.Done()
			hwConnOne(j.buf, j.run, j.cr)
		}(jobs[i])
	}
	wg.Wait()
	for _, j := range jobs {
		for _, ln := range j.buf.lines {
			w.Emit(ln)
		}
	}
	hwConnMore(w, run)
}

// hwConnMore: connect-gun runs (one tunnel per connection) and shared-client runs (instances take turns).
func hwConnMore(w hwSink, run int) int {
	seed := int(vt.Seed())
	for _, ssl := range []bool{false, true} {
		for _, cssl := range []bool{false, true} {
			for n := 1; n <= 2; n++ {
				run++
				hwConnOne(w, run, hwConnRun{ssl: ssl, ka: true, n: n, r: 3 + (seed+run)%2, connect: true, cssl: cssl})
			}
		}
	}
	run++
	hwConnOne(w, run, hwConnRun{ssl: false, ka: false, n: 2, r: 3, connect: true})
	for i, nk := range [][2]int{{3, 2}, {4, 1}, {4, 3}, {2, 2}} {
		run++
		hwConnOne(w, run, hwConnRun{ssl: i%2 == 1, ka: true, n: nk[0], r: 3 + (seed+run)%2, shared: nk[1], serial: true})
	}
	run++
	hwConnOne(w, run, hwConnRun{ssl: false, ka: true, n: 3, r: 3, shared: 2, serial: true, connect: true})
	// http2 gun: an instance multiplexes its (sequential) requests over its one h2 connection; shared clients too
	for n := 1; n <= 3; n++ {
		run++
		hwConnOne(w, run, hwConnRun{ssl: true, ka: true, n: n, r: 3 + (seed+run)%3, http2: true})
	}
	run++
	hwConnOne(w, run, hwConnRun{ssl: true, ka: true, n: 3, r: 3, shared: 2, serial: true, http2: true})
	return run
}

func hwConnOne(w hwSink, run int, cr hwConnRun) {
	fs := hwImport()
	log := zap.NewNop()
	ssl, ka, n, r := cr.ssl, cr.ka, cr.n, cr.r
	{
		{
			{
				rec := &targets.Recorder{}
				tgt := targets.NewHTTP("target", ssl, rec)
				if cr.http2 {
					tgt.Close()
					tgt = targets.NewHTTP2("target", rec)
				}
				// one uri ammo file with n*r distinct URIs
				var b strings.Builder
				for k := 0; k < n*r; k++ {
					fmt.Fprintf(&b, "/run%d/req%d\n", run, k)
				}
				path := fmt.Sprintf("/hw/conn%d.ammo", run)
				if err := afero.WriteFile(fs, path, []byte(b.String()), 0o644); err != nil {
					panic(err)
				}
				yamlShape := run%2 == 0
				prov, err := hwDecodeProvider(map[string]interface{}{"type": "uri", "file": path, "limit": n * r}, yamlShape)
				if err != nil {
					panic(err)
				}
				gm := map[string]interface{}{"type": "http", "target": tgt.Addr(), "ssl": ssl}
				var px *targets.ProxyTarget
				if cr.connect {
					px = targets.NewProxy("proxy", cr.cssl, tgt.Addr(), 200, rec)
					gm["type"], gm["target"], gm["connect-ssl"] = "connect", px.Addr(), cr.cssl
				}
				if cr.http2 {
					gm["type"] = "http2"
				}
				if cr.shared > 0 {
					gm["shared-client"] = map[string]interface{}{"enabled": true, "client-number": cr.shared}
				}
				var turn sync.Mutex
				if !ka {
					gm["disable-keep-alives"] = true
				}
				for k, v := range cr.opts {
					gm[k] = v
				}
				newGun, err := hwDecodeGunFactory(gm, yamlShape)
				if err != nil {
					panic(err)
				}
				aggs := []*hwAgg{}
				insts := []string{}
				shared := &hwShared{}
				var mu sync.Mutex
				shots := []hwConnEv{}
				stop := hwRunProvider(prov, log)
				var wg sync.WaitGroup
				guns := []core.Gun{}
				for i := 0; i < n; i++ {
					aggs = append(aggs, &hwAgg{inst: i})
					insts = append(insts, fmt.Sprintf("i%d", i+1))
					g, err := hwNewGun(newGun, aggs[i], context.Background(), log, i, shared)
					if err != nil {
						panic(err)
					}
					guns = append(guns, g)
				}
				for i := 0; i < n; i++ {
					wg.Add(1)
					go func(i int) {
						defer wg.Done()
						g := &hwRecGun{Gun: guns[i], inst: insts[i], mu: &mu, shots: &shots, agg: aggs[i]}
						for k := 0; k < r; k++ {
							if k > 0 && cr.gap > 0 {
								time.Sleep(cr.gap) // a lower bound only: the instance idles AT LEAST this long
							}
							if cr.serial {
								turn.Lock() // the instances take turns: a shared client carries one request at a time
							}
							a, ok := prov.Acquire()
							if ok {
								g.Shoot(a)
								prov.Release(a)
							}
							if cr.serial {
								turn.Unlock()
							}
							if !ok {
								return
							}
						}
					}(i)
				}
				wg.Wait()
				if err := stop(); err != nil {
					panic(err)
				}
				evs := rec.Drain() // before the target is closed: closing is not the gun's doing
				if px != nil {
					px.Close()
				}
				tgt.Close()
				_ = fs.Remove(path)
				w.Emit(hwConnEv{Ev: "Run", Run: run, N: n, R: r, KeepAlive: ka, SSL: ssl, Insts: insts, Opts: cr.optNote, GapMs: int(cr.gap / time.Millisecond), IdleMs: cr.idleMs,
					Gun: cr.gunName(), ConnectSSL: cr.cssl, Shared: cr.shared, Serial: cr.serial})
				sort.SliceStable(shots, func(a, b int) bool { return shots[a].Inst < shots[b].Inst })
				idx := map[string]int{}
				for k, name := range insts {
					idx[name] = k
				}
				for _, s := range shots {
					s.Run = run
					s.Idx = idx[s.Inst]
					w.Emit(s)
				}
				by := map[string]string{}
				okBy := map[string]bool{}
				for _, s := range shots {
					by[s.URI] = s.Inst
					okBy[s.URI] = s.OK
				}
				for _, ev := range evs {
					o := hwConnEv{Ev: ev.Ev, Run: run, Conn: ev.Conn, State: ev.State, URI: ev.URI}
					if ev.Ev == "Connect" {
						// a tunnel: identified by the ORIGIN-side connection it opened; request-target / Host projected
						proj := func(s string) string {
							if px != nil && s == px.Addr() {
								return "GUNTARGET"
							}
							return "?" + s
						}
						o.Conn, o.URI, o.Host, o.TLS = ev.Origin, proj(ev.URI), proj(ev.Host), ev.TLS
					}
					if ev.Ev == "Req" {
						o.Idx = idx[by[ev.URI]]
						o.Inst = by[ev.URI] // join only: which instance shot the request this connection carried ...
						o.OK = okBy[ev.URI] // ... and whether that exchange ended with a complete answer (its sample)
					}
					w.Emit(o)
				}
				for _, agg := range aggs {
					for _, s := range agg.drain() {
						w.Emit(hwConnEv{Ev: "Sample", Run: run, Proto: s.Proto, Net: s.Net})
					}
				}
				w.Emit(hwConnEv{Ev: "End", Run: run, N: n, R: r, KeepAlive: ka, SSL: ssl, Tolerant: cr.opts != nil,
					Gun: cr.gunName(), ConnectSSL: cr.cssl})
			}
		}
	}
}
