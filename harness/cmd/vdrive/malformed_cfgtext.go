package main

// C13, target "cfg", family "text": defects of the configuration TEXT (CfgSchema!TextTable).  Every class is an
// edit of the serialised well-formed configuration (malformed_cfg.go) - in the section of the SECOND pool where
// the edit has a place - or a whole document built around it.  A renderer whose edit does not change the text is
// a machinery failure.

import (
	"strings"
	"unicode/utf16"
)

// replace the LAST occurrence of old (the second pool's section)
func cfgRepLast(cls, text, old, new string) string {
	i := strings.LastIndex(text, old)
	if i < 0 {
		machinery("config text class %s: the text does not contain %q", cls, old)
	}
	return text[:i] + new + text[i+len(old):]
}

func cfgRepFirst(cls, text, old, new string) string {
	i := strings.Index(text, old)
	if i < 0 {
		machinery("config text class %s: the text does not contain %q", cls, old)
	}
	return text[:i] + new + text[i+len(old):]
}

// nested aliases: a0 = [x,..]; a1 = [*a0 x 9]; ... depth levels ("billion laughs")
func cfgLaughs(depth int) string {
	var sb strings.Builder
	sb.WriteString("zz_a0: &a0 [\"lol\", \"lol\", \"lol\", \"lol\", \"lol\", \"lol\", \"lol\", \"lol\", \"lol\"]\n")
	for i := 1; i <= depth; i++ {
		prev := "*a" + itoa(i-1)
		sb.WriteString("zz_a" + itoa(i) + ": &a" + itoa(i) + " [" + strings.TrimSuffix(strings.Repeat(prev+", ", 9), ", ") + "]\n")
	}
	return sb.String()
}

func itoa(i int) string {
	if i == 0 {
		return "0"
	}
	s := ""
	for ; i > 0; i /= 10 {
		s = string(rune('0'+i%10)) + s
	}
	return s
}

func mfRenderCfgText(syn, cls, target string) string {
	good := mfCfgSerialise(mfCfgBase(target), syn)
	last := func(old, new string) string { return cfgRepLast(cls, good, old, new) }
	// the second pool of the YAML text starts at the last "  -\n    id:"
	switch cls {
	case "t_none":
		return good
	case "t_empty", "j_empty":
		return ""
	case "t_space", "j_space":
		return "  \n\n"
	case "t_nul_mid":
		i := len(good) / 2
		return good[:i] + "\x00" + good[i:]
	case "t_nul_end":
		return good + "\x00"
	case "t_nul_start":
		return "\x00" + good
	case "t_ctrl":
		return last("pool-1", "pool\x01-1")
	case "t_bom":
		return "\xef\xbb\xbf" + good
	case "t_bom_mid":
		return last("pool-1", "pool\xef\xbb\xbf-1")
	case "t_utf16":
		u := utf16.Encode([]rune(good))
		b := []byte{0xff, 0xfe}
		for _, c := range u {
			b = append(b, byte(c), byte(c>>8))
		}
		return string(b)
	case "t_badutf8":
		return last("pool-1", "pool\xff\xfe-1")
	case "t_crlf":
		return strings.ReplaceAll(good, "\n", "\r\n")
	case "t_cr_only":
		return strings.ReplaceAll(good, "\n", "\r")
	case "t_truncated":
		return good[:len(good)*3/4]
	case "t_trunc_midtoken":
		i := strings.LastIndex(good, "pool-1")
		return good[:i+3]
	case "t_binary":
		return "\x7fELF\x02\x01\x01\x00\x00\x00\x00\x00\x00\x00\x00\x00\x03\x00>\x00\x01\x00\x00\x00"
	case "t_long_scalar":
		return last("pool-1", "pool-1"+strings.Repeat("x", 8<<20))
	case "t_long_key":
		switch syn {
		case "yaml":
			return good + strings.Repeat("k", 4<<20) + ": 1\n"
		case "json":
			return strings.TrimSuffix(good, "}\n") + ", \"" + strings.Repeat("k", 4<<20) + "\": 1}\n"
		case "toml":
			return good + strings.Repeat("k", 4<<20) + " = 1\n"
		}
	case "t_many_keys":
		var sb strings.Builder
		switch syn {
		case "yaml":
			sb.WriteString(good)
			for i := 0; i < 5000; i++ {
				sb.WriteString("zk" + itoa(i) + ": 1\n")
			}
		case "json":
			sb.WriteString(strings.TrimSuffix(good, "}\n"))
			for i := 0; i < 5000; i++ {
				sb.WriteString(", \"zk" + itoa(i) + "\": 1")
			}
			sb.WriteString("}\n")
		case "toml":
			sb.WriteString(good)
			for i := 0; i < 5000; i++ {
				sb.WriteString("zk" + itoa(i) + " = 1\n")
			}
		}
		return sb.String()
	case "t_deep_list":
		// 100 000 opening brackets
		n := 100000
		switch syn {
		case "yaml":
			return good + "zz: " + strings.Repeat("[", n) + strings.Repeat("]", n) + "\n"
		case "json":
			return strings.TrimSuffix(good, "}\n") + ", \"zz\": " + strings.Repeat("[", n) + strings.Repeat("]", n) + "}\n"
		case "toml":
			return good + "zz = " + strings.Repeat("[", n) + strings.Repeat("]", n) + "\n"
		}
	case "t_deep_map":
		// legal nesting, far below every parser limit (viper's key search is cubic in the depth, see design/C13.md)
		n := 200
		switch syn {
		case "yaml":
			return good + "zz: " + strings.Repeat("{a: ", n) + "1" + strings.Repeat("}", n) + "\n"
		case "json":
			return strings.TrimSuffix(good, "}\n") + ", \"zz\": " + strings.Repeat("{\"a\": ", n) + "1" + strings.Repeat("}", n) + "}\n"
		case "toml":
			return good + "zz = " + strings.Repeat("{a = ", n) + "1" + strings.Repeat("}", n) + "\n"
		}
	case "t_deep_unclosed":
		n := 100000
		switch syn {
		case "yaml":
			return good + "zz: " + strings.Repeat("[", n) + "\n"
		case "json":
			return strings.TrimSuffix(good, "}\n") + ", \"zz\": " + strings.Repeat("[", n)
		case "toml":
			return good + "zz = " + strings.Repeat("[", n) + "\n"
		}
	case "t_dup_key":
		switch syn {
		case "yaml":
			return last("      limit: 2\n", "      limit: 2\n      limit: 2\n")
		case "json":
			return last(`"limit": 2`, `"limit": 2, "limit": 2`)
		case "toml":
			return last("limit = 2", "limit = 2, limit = 2")
		}
	case "t_dup_key_conflict":
		switch syn {
		case "yaml":
			return last("      limit: 2\n", "      limit: 2\n      limit: [1]\n")
		case "json":
			return last(`"limit": 2`, `"limit": 2, "limit": [1]`)
		case "toml":
			return last("limit = 2", "limit = 2, limit = [1]")
		}
	case "t_dup_root":
		switch syn {
		case "yaml":
			return good + "pools: 5\n"
		case "json":
			return strings.TrimSuffix(good, "}\n") + ", \"pools\": 5}\n"
		case "toml":
			return good + "pools = 5\n"
		}
	case "t_case_dup_root":
		// viper lower-cases keys: `Pools` and `pools` are the same setting
		switch syn {
		case "yaml":
			return good + "Pools: 5\n"
		case "json":
			return strings.TrimSuffix(good, "}\n") + ", \"Pools\": 5}\n"
		case "toml":
			return good + "Pools = 5\n"
		}
	case "t_upper_keys":
		// every key in upper case: the same configuration for a case-insensitive reader
		r := strings.NewReplacer("pools", "POOLS", "gun", "GUN", "ammo", "AMMO", "limit", "LIMIT", "rps", "RPS", "startup", "STARTUP", "result", "RESULT")
		return r.Replace(good)
	case "t_dotted_key":
		switch syn {
		case "yaml":
			return good + "log.file: stdout\n"
		case "json":
			return strings.TrimSuffix(good, "}\n") + ", \"log.file\": \"stdout\"}\n"
		case "toml":
			return good + "\"log.file\" = \"stdout\"\n"
		}
	case "t_dotted_key_in_pool":
		switch syn {
		case "yaml":
			return last("      limit: 2\n", "      limit: 2\n      a.b: 1\n")
		case "json":
			return last(`"limit": 2`, `"limit": 2, "a.b": 1`)
		case "toml":
			return last("limit = 2", "limit = 2, \"a.b\" = 1")
		}
	case "t_empty_key":
		switch syn {
		case "yaml":
			return last("      limit: 2\n", "      limit: 2\n      \"\": 1\n")
		case "json":
			return last(`"limit": 2`, `"limit": 2, "": 1`)
		case "toml":
			return last("limit = 2", "limit = 2, \"\" = 1")
		}
	case "t_trailing_garbage":
		switch syn {
		case "yaml":
			return good + "}\n"
		case "json":
			return good + "x\n"
		case "toml":
			return good + "]]\n"
		}
	case "t_second_doc":
		switch syn {
		case "yaml":
			return good + "---\npools: 5\n"
		case "json":
			return good + "{\"pools\": 5}\n"
		}
	case "t_comment_only", "j_comment_only":
		switch syn {
		case "yaml", "toml":
			return "# nothing here\n"
		case "json":
			return "// nothing here\n"
		}
	case "t_unclosed_string":
		switch syn {
		case "yaml":
			return last("\"pool-1\"", "\"pool-1")
		case "json":
			return last("\"pool-1\"", "\"pool-1")
		case "toml":
			return last("\"pool-1\"", "\"pool-1")
		}
	case "t_unclosed_list":
		switch syn {
		case "yaml":
			return last("limit: 2\n", "limit: [1, 2\n")
		case "json":
			return last(`"limit": 2`, `"limit": [1, 2`)
		case "toml":
			return last("limit = 2", "limit = [1, 2")
		}
	case "t_unclosed_map":
		switch syn {
		case "yaml":
			return last("limit: 2\n", "limit: {a: 1\n")
		case "json":
			return strings.TrimSuffix(good, "}\n") + "\n"
		case "toml":
			return last("limit = 2", "limit = {a = 1")
		}
	case "t_missing_sep":
		// the separator between key and value is missing
		switch syn {
		case "yaml":
			return last("      limit: 2\n", "      limit 2\n")
		case "json":
			return last(`"limit": 2`, `"limit" 2`)
		case "toml":
			return last("limit = 2", "limit 2")
		}
	case "t_missing_comma":
		switch syn {
		case "json":
			return last(`"limit": 2, `, `"limit": 2 `)
		case "toml":
			return last("limit = 2, ", "limit = 2 ")
		case "yaml":
			return last("limit: 2\n", "limit: [1 2, {a: 1 b: 2}]\n")
		}
	case "t_trailing_comma":
		switch syn {
		case "json":
			return last(`"limit": 2, `, `"limit": 2,, `)
		case "toml":
			return last("limit = 2, ", "limit = 2,, ")
		case "yaml":
			return last("limit: 2\n", "limit: [1,, 2]\n")
		}
	case "t_bare_word":
		// a value that is not a literal of the syntax
		switch syn {
		case "json":
			return last(`"limit": 2`, `"limit": two`)
		case "toml":
			return last("limit = 2", "limit = two")
		case "yaml":
			return last("limit: 2\n", "limit: @two\n")
		}
	case "t_single_quotes":
		switch syn {
		case "json":
			return last(`"pool-1"`, `'pool-1'`)
		}
	case "t_unquoted_key":
		switch syn {
		case "json":
			return last(`"limit": 2`, `limit: 2`)
		}
	case "t_huge_exp":
		switch syn {
		case "json":
			return last(`"limit": 2`, `"limit": 1e999999`)
		case "toml":
			return last("limit = 2", "limit = 1e999999")
		case "yaml":
			return last("limit: 2\n", "limit: 1e999999\n")
		}
	case "t_leading_zero":
		switch syn {
		case "json":
			return last(`"limit": 2`, `"limit": 02`)
		case "toml":
			return last("limit = 2", "limit = 02")
		case "yaml":
			return last("limit: 2\n", "limit: 02\n")
		}
	case "t_hex_number":
		switch syn {
		case "json":
			return last(`"limit": 2`, `"limit": 0x2`)
		case "toml":
			return last("limit = 2", "limit = 0x2")
		case "yaml":
			return last("limit: 2\n", "limit: 0x2\n")
		}
	// ---- YAML only
	case "y_tab_indent":
		return last("      limit: 2\n", "\tlimit: 2\n")
	case "y_bad_indent":
		return last("      limit: 2\n", "     limit: 2\n")
	case "y_over_indent":
		return last("      limit: 2\n", "        limit: 2\n")
	case "y_alias_pool":
		// the second pool is an alias of the first: a legal way to write the same pool twice
		i := strings.LastIndex(good, "  -\n    id:")
		return cfgRepFirst(cls, good[:i], "  -\n", "  - &p0\n") + "  - *p0\n"
	case "y_merge_key":
		i := strings.LastIndex(good, "  -\n    id:")
		return cfgRepFirst(cls, good[:i], "  -\n", "  - &p0\n") + "  -\n    <<: *p0\n    id: \"pool-1\"\n"
	case "y_alias_scalar":
		return cfgRepLast(cls, cfgRepFirst(cls, good, "limit: 2\n", "limit: &lim 2\n"), "limit: 2\n", "limit: *lim\n")
	case "y_undefined_alias":
		return last("limit: 2\n", "limit: *nosuch\n")
	case "y_recursive_anchor":
		return last("      headers:\n        - \"[X-A: b]\"\n", "      headers: &h\n        - *h\n")
	case "y_alias_before_anchor":
		return cfgRepLast(cls, cfgRepFirst(cls, good, "limit: 2\n", "limit: *lim\n"), "limit: 2\n", "limit: &lim 2\n")
	case "y_dup_anchor":
		return cfgRepLast(cls, cfgRepFirst(cls, good, "limit: 2\n", "limit: &lim 2\n"), "limit: 2\n", "limit: &lim 2\n")
	case "y_laughs_unused":
		// the expansion hangs off keys nobody reads
		return cfgLaughs(9) + good
	case "y_laughs_headers":
		// ... or off a value the decoder has to walk
		return cfgLaughs(9) + last("      headers:\n        - \"[X-A: b]\"\n", "      headers: *a9\n")
	case "y_laughs_small":
		return cfgLaughs(3) + last("      headers:\n        - \"[X-A: b]\"\n", "      headers: *a3\n")
	case "y_tag_str":
		return last("limit: 2\n", "limit: !!str 2\n")
	case "y_tag_int_bad":
		return last("limit: 2\n", "limit: !!int two\n")
	case "y_tag_unknown":
		return last("limit: 2\n", "limit: !nosuch 2\n")
	case "y_tag_binary_bad":
		return last("\"pool-1\"", "!!binary \"@@@@\"")
	case "y_tag_map_on_scalar":
		return last("limit: 2\n", "limit: !!map 2\n")
	case "y_complex_key":
		return last("      limit: 2\n", "      limit: 2\n      ? [a, b]\n      : 1\n")
	case "y_int_key":
		return last("      limit: 2\n", "      limit: 2\n      1: 1\n")
	case "y_bool_key":
		return last("      limit: 2\n", "      limit: 2\n      yes: 1\n")
	case "y_null_key":
		return last("      limit: 2\n", "      limit: 2\n      ~: 1\n")
	case "y_directive_bad":
		return "%YAML 9.9\n---\n" + good
	case "y_directive_unknown":
		return "%NOSUCH 1\n---\n" + good
	case "y_doc_end_garbage":
		return good + "...\ngarbage: [\n"
	case "y_block_scalar_bad":
		return last("\"pool-1\"", "|9x\n      text")
	case "y_flow_in_block_key":
		return last("      limit: 2\n", "      [limit]: 2\n")
	case "y_percent_line":
		return last("      limit: 2\n", "      limit: 2\n%broken\n")
	case "y_octal_like":
		return last("limit: 2\n", "limit: 0o2\n")
	case "y_sexagesimal":
		return last("limit: 2\n", "limit: 1:30\n")
	case "y_norway":
		// `no` read as a boolean where a string is expected
		return last("\"pool-1\"", "no")
	case "y_timestamp":
		return last("\"pool-1\"", "2001-12-14")
	// ---- TOML only
	case "o_dup_table":
		return good + "[log]\nfile = \"stdout\"\n"
	case "o_table_vs_key":
		return good + "[pools]\nx = 1\n"
	case "o_bad_table_header":
		return good + "[zz\nx = 1\n"
	case "o_empty_table_name":
		return good + "[]\nx = 1\n"
	case "o_multiline_inline":
		// an inline table may not span lines
		return last("limit = 2, ", "limit = 2,\n ")
	case "o_date_value":
		return last("\"pool-1\"", "1979-05-27")
	case "o_datetime_value":
		return last("\"pool-1\"", "1979-05-27T07:32:00Z")
	case "o_literal_multiline_unclosed":
		return last("\"pool-1\"", "'''pool-1")
	case "o_bad_escape":
		return last("\"pool-1\"", "\"pool\\q-1\"")
	case "o_array_of_tables":
		// the documented way to write pools in TOML: [[pools]] sections
		return "[log]\nlevel = \"error\"\n" + cfgTomlPools(target)
	case "o_array_of_tables_mixed":
		// `pools = [...]` AND [[pools]]: a static array cannot be extended
		return good + "[[pools]]\nid = \"late\"\n"
	}
	machinery("no renderer for config text class %q (%s)", cls, syn)
	return ""
}

func cfgTomlPools(target string) string {
	var sb strings.Builder
	for i := 0; i < 2; i++ {
		sb.WriteString("[[pools]]\nid = \"pool-" + itoa(i) + "\"\ndiscard_overflow = true\n")
		sb.WriteString("rps = [{type = \"once\", times = 1}, {type = \"const\", ops = 100.0, duration = \"1s\"}]\n")
		sb.WriteString("[pools.gun]\ntype = \"http\"\ntarget = \"" + target + "\"\n[pools.gun.dial]\ntimeout = \"1s\"\n")
		sb.WriteString("[pools.ammo]\ntype = \"uri\"\nfile = \"/pool/ammo.uri\"\nlimit = 2\nheaders = [\"[X-A: b]\"]\n")
		sb.WriteString("[pools.result]\ntype = \"discard\"\n[pools.startup]\ntype = \"once\"\ntimes = 1\n")
	}
	return sb.String()
}
