// vdrive responses: C19.  Real engine runs (2 instances, 30 ammo, `once` schedule) of every gun kind against
// scripted misbehaving in-process targets: one run per letter of the response alphabet of
// spec/Responses.tla (per configured postprocessor set for the scenario guns) plus seeded random mixtures.
// Every ammo names the letter it wants to be answered with (X-Letter header / HelloRequest.name) and carries
// it in its tag / scenario name, so each sample can be attributed to the letter that caused it.
// Recorded per run: Engine.Run's result, the samples, the engine's request counter.  TraceResponses.tla decides.
package main

import (
	"verifharness/internal/targets"
	"crypto/tls"
	"flag"
	"fmt"
	"io"
	"math/rand"
	"net"
	"net/http"
	"net/http/httptest"
	"os"
	"path/filepath"
	"regexp"
	"strings"
	"sync"
	"time"

	"github.com/yandex/pandora/core/engine"
	"github.com/yandex/pandora/lib/monitoring"
	"go.uber.org/zap"
	"go.uber.org/zap/zapcore"

	"verifharness/internal/scentarget"
	"verifharness/internal/vt"
)

func init() {
	register("responses", responsesMain)
	register("dnsrace", dnsRaceMain)
}

type letterRec struct {
	L    string `json:"l"`
	Code int    `json:"code"`
}

var hvRe = regexp.MustCompile(`^hv([0-9]{1,2})$`)
var statusRe = regexp.MustCompile(`^s([0-9]{3})$`)
var codeRe = regexp.MustCompile(`^c([0-9]{1,10})$`)

func letterOf(s string) letterRec {
	if m := statusRe.FindStringSubmatch(s); m != nil {
		n := 0
		fmt.Sscanf(m[1], "%d", &n)
		return letterRec{"status", n}
	}
	if m := codeRe.FindStringSubmatch(s); m != nil {
		n := 0
		fmt.Sscanf(m[1], "%d", &n)
		return letterRec{"code", n}
	}
	if m := hvRe.FindStringSubmatch(s); m != nil {
		n := 0
		fmt.Sscanf(m[1], "%d", &n)
		return letterRec{"hv", n}
	}
	return letterRec{s, 200}
}

// one enumerated var/header modifier case: what was configured and what step b then echoed to the target
type modCase struct {
	Kind  string `json:"kind"` // substr | mod
	Spec  string `json:"spec"`
	A     int    `json:"a"`
	B     int    `json:"b"`
	HasB  bool   `json:"hasb"`
	Seen  bool   `json:"seen"`
	Start int    `json:"start"` // position of the echoed value in the header value's alphabet (-1: not a substring)
	Len   int    `json:"len"`
	Got   string `json:"got"`
}

// substrCases renders SubstrCases(n) of spec/Responses.tla, plus a few chains of the other modifiers
func substrCases(n int) []modCase {
	set := map[int]bool{}
	var bounds []int
	for _, v := range []int{-n - 7, -n - 1, -n, -1, 0, 1, n - 1, n, n + 1, n + 7} {
		if !set[v] {
			set[v] = true
			bounds = append(bounds, v)
		}
	}
	var out []modCase
	for _, a := range bounds {
		out = append(out, modCase{Kind: "substr", Spec: fmt.Sprintf("X-Tok|substr(%d)", a), A: a, B: 0, HasB: false})
		for _, b := range bounds {
			out = append(out, modCase{Kind: "substr", Spec: fmt.Sprintf("X-Tok|substr(%d,%d)", a, b), A: a, B: b, HasB: true})
		}
	}
	for _, m := range []string{"X-Tok|lower", "X-Tok|upper", "X-Tok|replace(b,)", "X-Tok|replace(,x)", "X-Tok|lower|substr(-1)",
		"X-Tok|upper|replace(A,)|substr(1,2)", "X-Tok|replace(abc,)|substr(1)", "X-Tok|replace(a,aaaa)|substr(-2,-9)"} {
		out = append(out, modCase{Kind: "mod", Spec: m})
	}
	return out
}

func substrPayload(prefix string, n int, cases []modCase) string {
	var b strings.Builder
	b.WriteString("requests:\n")
	for i, c := range cases {
		fmt.Fprintf(&b, "  - name: a%d\n    method: GET\n    uri: /a\n    headers:\n      X-Letter: hv%d\n    postprocessors:\n      - type: var/header\n        mapping:\n          tok: '%s'\n", i, n, c.Spec)
		fmt.Fprintf(&b, "  - name: b%d\n    method: GET\n    uri: /b\n    headers:\n      X-Letter: hv%d\n      X-Case: %s%d\n      X-Val: '[{{.request.a%d.postprocessor.tok}}]'\n", i, n, prefix, i, i)
	}
	b.WriteString("scenarios:\n")
	for i := range cases {
		fmt.Fprintf(&b, "  - name: m%d_hv%d\n    weight: 1\n    requests: [a%d, b%d]\n", i, n, i, i)
	}
	return b.String()
}

type respSample struct {
	Letter letterRec `json:"letter"`
	Step   string    `json:"step"`
	Proto  int       `json:"proto"`
	Err    bool      `json:"err"`
	Empty  bool      `json:"empty"`
	Tags   string    `json:"tags"`
	ErrS   string    `json:"errs,omitempty"`
}

type respRun struct {
	Run      int          `json:"run"`
	Gun      string       `json:"gun"`
	Posts    string       `json:"posts"`
	Shots    int          `json:"shots"`
	Inst     int          `json:"inst"`
	Ammo     []letterRec  `json:"ammo"` // letter of shot i (ring order)
	AmmoS    []string     `json:"ammo_s"`
	Samples  []respSample `json:"samples"`
	BuildErr string       `json:"build_err"`
	RunErr   string       `json:"run_err"`
	Fired    int          `json:"fired"`    // engine Request counter
	Answered int          `json:"answered"` // engine Response counter
	Seen     int          `json:"seen"`     // requests / calls the target saw
	Variant  string       `json:"variant"`  // plain | debug (debug-level logger, answlog all, httptrace dump+trace)
	Downs    int          `json:"downs"`    // connections that met the target while it was away (informational / machinery sanity)
	Faults   int          `json:"faults"`   // handshake-level faults the TLS target injected (informational / machinery sanity)
	Fatal    bool         `json:"fatal"`    // the documented fatal condition is being provoked
	Mix      bool         `json:"mix"`
	WallMs   int          `json:"wall_ms"`  // informational
	Retried  bool         `json:"retried"`  // the run hit the driver's time limit once and was repeated alone
	AVariant string       `json:"avariant"` // ammo variant (AmmoVariants of the spec)
	Kind     string       `json:"kind"`     // letters | substr (enumerated var/header modifier bounds)
	Vlen     int          `json:"vlen"`     // substr runs: length of the header value
	Cases    []modCase    `json:"cases"`
}

var httpStatus = []string{"s200", "s201", "s204", "s299", "s301", "s304", "s400", "s404", "s418", "s429", "s500", "s503", "s599"}
var httpNet = []string{"badstatus", "badheader", "hugeheader", "closebefore", "closeduring", "many1xx"}
var httpBody = []string{"trunc", "badchunk", "chunkhuge", "chunkneg", "chunknocrlf", "chunktrunc"}

// the ANNOUNCED length of the body is the peer's number (spec/Responses.tla AnnouncedLens): 2^62, 2^63-1 (status and headers
// arrive, the body ends early) and 2^63, 10^20 (no Content-Length a client can accept: no response at all)
var httpLenBody = []string{"cl2p62", "clmax64"}
var httpLenNet = []string{"cl2p63", "cl1e20"}
var tunnelLetters = []string{"tunrefused", "tun407", "tungarbage", "tunextra"}
var httpList = []string{"lst0", "lst1", "lststr", "lstnull", "lstobj"}
var httpOdd = []string{"early", "empty", "big", "notjson", "jsonarr", "nothtml", "shorthdr", "nohdr", "cont100", "upgrade", "gzipraw", "manyheaders", "dribble"}
var allPosts = []string{"none", "jsonpath", "header_substr", "xpath", "assert", "all"}

// response-derived lists: a captures `items: $.list`, b's preprocessor indexes it (spec/Responses.tla IdxPosts)
var idxPosts = map[string]string{"idx_last": "last", "idx_next": "next", "idx_rand": "rand", "idx_0": "0", "idx_neg": "-1", "idx_big": "7"}
var idxPostNames = []string{"idx_last", "idx_next", "idx_rand", "idx_0", "idx_neg", "idx_big"}

// gRPC status codes outside the canonical range (the uint32 of the grpc-status trailer is the peer's)
var grpcOddCodes = []string{"c17", "c42", "c2147483647"}

func postsYAML(p string) string {
	has := func(q string) bool { return p == q || p == "all" }
	var b strings.Builder
	if _, ok := idxPosts[p]; ok {
		b.WriteString("      - type: var/jsonpath\n        mapping:\n          items: $.list\n")
	}
	if has("jsonpath") {
		b.WriteString("      - type: var/jsonpath\n        mapping:\n          tok: $.tok\n          first: $.list[0]\n")
	}
	if has("header_substr") {
		b.WriteString("      - type: var/header\n        mapping:\n          tok: X-Tok|substr(5,10)\n          low: X-Tok|lower|substr(3)\n          neg: X-Tok|substr(-4)\n")
	}
	if has("xpath") {
		b.WriteString("      - type: var/xpath\n        mapping:\n          tok: \"//div[@id='tok']\"\n          title: //title\n")
	}
	if has("assert") {
		b.WriteString("      - type: assert/response\n        headers:\n          X-Tok: h\n        body:\n          - tok\n")
	}
	if b.Len() == 0 {
		return ""
	}
	return "    postprocessors:\n" + b.String()
}

// one scenario per shot position: m<i>_<letter> = [a<i> (postprocessors), b<i>]
func httpScenarioPayload(letters []string, posts string, variant string) string {
	var b strings.Builder
	b.WriteString("requests:\n")
	for i, l := range letters {
		method := "    method: GET\n"
		if variant == "body" {
			method = "    method: POST\n    body: 'body=body'\n"
		}
		fmt.Fprintf(&b, "  - name: a%d\n%s    uri: /a\n    headers:\n      X-Letter: %s\n%s", i, method, l, postsYAML(posts))
		if index, ok := idxPosts[posts]; ok {
			fmt.Fprintf(&b, "  - name: b%d\n    method: POST\n    uri: /b\n    headers:\n      X-Letter: %s\n      X-Val: 'v{{.request.b%d.preprocessor.row}}'\n    body: 'x=1'\n    preprocessor:\n      mapping:\n        row: request.a%d.postprocessor.items[%s]\n", i, l, i, i, index)
			continue
		}
		fmt.Fprintf(&b, "  - name: b%d\n    method: POST\n    uri: /b\n    headers:\n      X-Letter: %s\n      X-Val: 'v{{.request.a%d.postprocessor.tok}}'\n    body: 'x={{.request.a%d.postprocessor.low}}'\n", i, l, i, i)
	}
	b.WriteString("scenarios:\n")
	for i, l := range letters {
		fmt.Fprintf(&b, "  - name: m%d_%s\n    weight: 1\n    requests: [a%d, b%d]\n", i, l, i, i)
	}
	return b.String()
}

func grpcScenarioPayload(letters []string, variant string) string {
	var b strings.Builder
	b.WriteString("calls:\n")
	for i, l := range letters {
		payload, meta := fmt.Sprintf("{\"name\": \"%s\"}", l), ""
		switch variant {
		case "meta":
			meta = "    metadata:\n      x-trace: t1\n      x-user: u\n"
		case "emptymeta":
			payload, meta = "{}", fmt.Sprintf("    metadata:\n      x-letter: %s\n", l)
		case "emptydefault":
			payload = "{}"
		}
		call, payloadB, assert := "target.TargetService.Hello", fmt.Sprintf("{\"name\": \"%s\"}", l), "        payload: [Hello]\n"
		if c := scentarget.WktCall(l); c != "" {
			// the letter is the method: an OK reply of a well-known type (request: Empty).  Such a reply has no greeting to
			// assert on: step a asserts the status only, so the reply goes on into the step's variables
			call, payload, payloadB, assert = c, "{}", "{}", ""
		}
		fmt.Fprintf(&b, "  - name: a%d\n    tag: a\n    call: %s\n    payload: '%s'\n%s    postprocessors:\n      - type: assert/response\n%s        status_code: 200\n", i, call, payload, meta, assert)
		fmt.Fprintf(&b, "  - name: b%d\n    tag: b\n    call: %s\n    payload: '%s'\n", i, call, payloadB)
	}
	b.WriteString("scenarios:\n")
	for i, l := range letters {
		fmt.Fprintf(&b, "  - name: m%d_%s\n    weight: 1\n    requests: [a%d, b%d]\n", i, l, i, i)
	}
	return b.String()
}

func uriAmmo(letters []string) string {
	var b strings.Builder
	for _, l := range letters {
		fmt.Fprintf(&b, "[X-Letter: %s]\n/x %s\n", l, l)
	}
	return b.String()
}

// ammo variants (spec/Responses.tla AmmoVariants): "" plain; meta = the call carries metadata; emptymeta = empty payload, the
// letter travels in the metadata; emptydefault = empty payload, no metadata (the target's default letter); body = the http
// request is a POST with a body
func grpcAmmo(letters []string, variant string) string {
	var b strings.Builder
	for _, l := range letters {
		payload, meta := fmt.Sprintf("{\"name\": \"%s\"}", l), ""
		switch variant {
		case "meta":
			meta = ", \"metadata\": {\"x-trace\": \"t1\", \"x-user\": \"u\"}"
		case "emptymeta":
			payload, meta = "{}", fmt.Sprintf(", \"metadata\": {\"x-letter\": \"%s\"}", l)
		case "emptydefault":
			payload = "{}"
		}
		call := "target.TargetService.Hello"
		if c := scentarget.WktCall(l); c != "" {
			call, payload = c, "{}"
		}
		fmt.Fprintf(&b, "{\"tag\": \"%s\", \"call\": \"%s\", \"payload\": %s%s}\n", l, call, payload, meta)
	}
	return b.String()
}

func uripostAmmo(letters []string) string {
	var b strings.Builder
	for _, l := range letters {
		fmt.Fprintf(&b, "[X-Letter: %s]\n9 /x %s\nbody=body\n", l, l)
	}
	return b.String()
}

type respPlan struct {
	av      string // ammo variant: "" | meta | emptymeta | emptydefault | body
	avail   string // availability history: the target goes away like this (avreset | avhole) and comes back; staged start-up
	tls     bool   // handshake-level letter: the run goes to the TLS fault target, keep-alive off
	h2raw   bool   // the run goes to the frame-level HTTP/2 target
	gz      bool   // the client decompresses (disable-compression: false)
	tunnel  bool   // the letter is what the target does to the connect gun's CONNECT
	sub     int    // n+1: the enumerated substr bounds against a header value of n bytes (one instance); 0: not such a run
	debug   bool
	gun     string
	posts   string
	letters []string // per shot; len == shots
	refused bool
	timeout bool
	fatal   bool
	mix     bool
}

func repeat(l string, n int) []string {
	out := make([]string, n)
	for i := range out {
		out[i] = l
	}
	return out
}

const shots = 30

// availability runs: 20 rps for 3 s; instance 1 at once, instance 2 after 300 ms; the target goes away with the first
// sample (never before it: the guns' warm-up is over then) and is back 1.8 s after the start (nothing is decided from these times)
const availShots = 60

func availPoolYAML(id, gunType, ammoType, ammoFile, target, gunExtra string) string {
	return fmt.Sprintf(`pools:
  - id: "%s"
    ammo:
      type: %s
      file: %s
    result:
      type: discard
    gun:
      type: %s
      target: %s
%s    rps:
      - type: const
        ops: 20
        duration: 3s
    startup:
      - type: once
        times: 1
      - type: const
        ops: 0
        duration: 300ms
      - type: once
        times: 1
`, id, ammoType, ammoFile, gunType, target, gunExtra)
}

// runLimit is the driver's own limit for one engine run (normal: 0.1 .. 5 s, tens of seconds when the machine is
// overloaded).  A run that hits it is repeated once, alone; only a second hit is recorded as the run's result.
const runLimit = 300 * time.Second

func planAll(mixes int, rnd *rand.Rand, h2 bool) []respPlan {
	var plans []respPlan
	httpAll := append(append(append(append(append(append([]string{}, httpStatus...), httpNet...), httpBody...), httpOdd...), httpLenBody...), httpLenNet...)
	for _, l := range httpAll {
		plans = append(plans, respPlan{gun: "http", posts: "none", letters: repeat(l, shots)})
		plans = append(plans, respPlan{gun: "http/scenario", posts: "all", letters: repeat(l, shots)})
	}
	for _, l := range httpAll { // the connect gun: the same letters through an established tunnel
		plans = append(plans, respPlan{gun: "connect", posts: "none", letters: repeat(l, shots)})
	}
	for _, p := range []string{"none", "jsonpath", "header_substr", "xpath", "assert"} {
		for _, l := range []string{"s200", "s204", "s500", "empty", "notjson", "jsonarr", "nothtml", "shorthdr", "nohdr", "trunc", "closebefore", "big"} {
			if l == "big" && p != "jsonpath" && p != "xpath" {
				continue
			}
			plans = append(plans, respPlan{gun: "http/scenario", posts: p, letters: repeat(l, shots)})
		}
	}
	// absurd announced lengths x every way a scenario step reads the body into memory (each postprocessor set on its own,
	// none = the body is only drained) and, with the side channels on (answlog / debug log read the body too), x every gun
	for _, l := range httpLenBody {
		for _, p := range []string{"none", "jsonpath", "header_substr", "xpath", "assert", "idx_last"} {
			plans = append(plans, respPlan{gun: "http/scenario", posts: p, letters: repeat(l, shots)})
		}
		plans = append(plans, respPlan{gun: "http/scenario", posts: "none", letters: repeat(l, shots), debug: true})
		plans = append(plans, respPlan{gun: "http/scenario", posts: "all", letters: repeat(l, shots), debug: true})
		plans = append(plans, respPlan{gun: "http", posts: "none", letters: repeat(l, shots), debug: true})
		plans = append(plans, respPlan{gun: "connect", posts: "none", letters: repeat(l, shots), debug: true})
	}
	// Content-Encoding: gzip on garbage, with a client that decompresses (single-letter runs: the gun option is per run)
	for _, g := range []string{"http", "http/scenario", "connect"} {
		po := map[string]string{"http": "none", "http/scenario": "all", "connect": "none"}[g]
		plans = append(plans, respPlan{gun: g, posts: po, letters: repeat("gzipbad", shots), gz: true})
		if g != "connect" {
			plans = append(plans, respPlan{gun: g, posts: po, letters: repeat("gzipbad", shots), gz: true, debug: true})
		}
	}
	plans = append(plans, respPlan{gun: "http/scenario", posts: "none", letters: repeat("gzipbad", shots), gz: true})
	// the connect gun's tunnel is refused / answered 407 / with garbage / with bytes behind the 200
	for _, l := range tunnelLetters {
		plans = append(plans, respPlan{gun: "connect", posts: "none", letters: repeat(l, shots), tunnel: true})
	}
	plans = append(plans, respPlan{gun: "connect", posts: "none", letters: repeat("tun407", shots), tunnel: true, debug: true})
	// response-derived lists indexed by a later step's preprocessor: every index form x (empty, one element, not a list,
	// two elements, no JSON at all, no response at all)
	for _, l := range httpList {
		plans = append(plans, respPlan{gun: "http/scenario", posts: "all", letters: repeat(l, shots)})
	}
	for _, p := range idxPostNames {
		for _, l := range []string{"lst0", "lst1", "lststr", "lstnull", "lstobj", "s200", "notjson", "closebefore"} {
			if (l == "lstnull" || l == "lstobj" || l == "notjson" || l == "closebefore") && p != "idx_last" && p != "idx_next" {
				continue
			}
			plans = append(plans, respPlan{gun: "http/scenario", posts: p, letters: repeat(l, shots)})
		}
	}
	for _, g := range []string{"http", "http/scenario"} {
		plans = append(plans, respPlan{gun: g, posts: map[string]string{"http": "none", "http/scenario": "all"}[g], letters: repeat("refused", shots), refused: true})
		plans = append(plans, respPlan{gun: g, posts: map[string]string{"http": "none", "http/scenario": "all"}[g], letters: repeat("timeout", shots), timeout: true})
	}
	// the side channels that also touch the response: debug-level logging, answlog, httptrace dump - with every
	// transport-failure letter (no response at all), the body-failure letters and a few well-formed ones
	for _, l := range []string{"s200", "s500", "s204", "trunc", "badchunk", "closebefore", "closeduring", "badheader", "badstatus", "hugeheader",
		"shorthdr", "notjson", "nothtml", "empty"} {
		plans = append(plans, respPlan{gun: "http", posts: "none", letters: repeat(l, shots), debug: true})
		plans = append(plans, respPlan{gun: "http/scenario", posts: "all", letters: repeat(l, shots), debug: true})
		if l == "closebefore" || l == "badstatus" || l == "s200" {
			plans = append(plans, respPlan{gun: "connect", posts: "none", letters: repeat(l, shots), debug: true})
		}
	}
	for _, g := range []string{"http", "http/scenario"} {
		po := map[string]string{"http": "none", "http/scenario": "all"}[g]
		plans = append(plans, respPlan{gun: g, posts: po, letters: repeat("refused", shots), refused: true, debug: true})
		plans = append(plans, respPlan{gun: g, posts: po, letters: repeat("timeout", shots), timeout: true, debug: true})
	}
	for _, l := range []string{"c0", "c5", "c14", "gtoobig"} {
		plans = append(plans, respPlan{gun: "grpc", posts: "none", letters: repeat(l, shots), debug: true})
		plans = append(plans, respPlan{gun: "grpc/scenario", posts: "none", letters: repeat(l, shots), debug: true})
	}
	// availability histories: up -> away (connections reset / black-holed) -> up, the 2nd instance is created while away
	for _, g := range []string{"http", "http/scenario", "connect", "grpc", "grpc/scenario"} {
		po := "none"
		if g == "http/scenario" {
			po = "all"
		}
		for _, av := range []string{"avreset", "avhole"} {
			plans = append(plans, respPlan{gun: g, posts: po, letters: repeat(av, availShots), avail: av})
		}
	}
	if h2 {
		for _, av := range []string{"avreset", "avhole"} {
			plans = append(plans, respPlan{gun: "http2", posts: "none", letters: repeat(av, availShots), avail: av})
		}
	}
	// var/header modifiers: every enumerated (a, b) of SubstrCases(n) against header values of n bytes
	for _, n := range []int{0, 1, 2, 3, 5, 12} {
		plans = append(plans, respPlan{gun: "http/scenario", posts: "header_substr", letters: repeat(fmt.Sprintf("hv%d", n), shots), sub: n + 1})
	}
	for c := 0; c <= 16; c++ {
		plans = append(plans, respPlan{gun: "grpc", posts: "none", letters: repeat(fmt.Sprintf("c%d", c), shots)})
		plans = append(plans, respPlan{gun: "grpc/scenario", posts: "none", letters: repeat(fmt.Sprintf("c%d", c), shots)})
	}
	for _, l := range grpcOddCodes {
		plans = append(plans, respPlan{gun: "grpc", posts: "none", letters: repeat(l, shots)})
		plans = append(plans, respPlan{gun: "grpc/scenario", posts: "none", letters: repeat(l, shots)})
	}
	for _, l := range []string{"gbig", "gtoobig", "gslow", "gkill", "gempty", "ggarbage", "gkillmid"} {
		plans = append(plans, respPlan{gun: "grpc", posts: "none", letters: repeat(l, shots), timeout: l == "gslow"})
		plans = append(plans, respPlan{gun: "grpc/scenario", posts: "none", letters: repeat(l, shots), timeout: l == "gslow"})
	}
	// OK replies whose TYPE is a protobuf well-known type (Empty, Timestamp, Duration, wrappers, Struct, Value, ListValue, Any,
	// FieldMask): single-letter runs for both guns, the scenario gun also with the side channels on
	for _, l := range scentarget.WktLetters() {
		plans = append(plans, respPlan{gun: "grpc", posts: "none", letters: repeat(l, shots)})
		plans = append(plans, respPlan{gun: "grpc/scenario", posts: "none", letters: repeat(l, shots)})
		if l == "wempty" || l == "wstring" || l == "wany" {
			plans = append(plans, respPlan{gun: "grpc/scenario", posts: "none", letters: repeat(l, shots), debug: true})
		}
	}
	// the timeout class (and two controls) crossed with the shape of the ammo: metadata none / some, payload empty /
	// non-empty for the grpc guns; with / without a body for the http guns
	for _, g := range []string{"grpc", "grpc/scenario"} {
		for _, av := range []string{"meta", "emptymeta", "emptydefault"} {
			for _, l := range []string{"gslow", "c0", "c14"} {
				plans = append(plans, respPlan{gun: g, posts: "none", letters: repeat(l, shots), timeout: l == "gslow", av: av})
			}
		}
	}
	for _, g := range []string{"http", "http/scenario"} {
		po := map[string]string{"http": "none", "http/scenario": "all"}[g]
		plans = append(plans, respPlan{gun: g, posts: po, letters: repeat("timeout", shots), timeout: true, av: "body"})
		plans = append(plans, respPlan{gun: g, posts: po, letters: repeat("closebefore", shots), av: "body"})
		plans = append(plans, respPlan{gun: g, posts: po, letters: repeat("s200", shots), av: "body"})
	}
	if h2 {
		for _, g := range []string{"http2", "http2/scenario"} {
			p := map[string]string{"http2": "none", "http2/scenario": "all"}[g]
			for _, l := range []string{"s200", "s404", "s500", "shorthdr", "notjson"} {
				plans = append(plans, respPlan{gun: g, posts: p, letters: repeat(l, shots)})
			}
			plans = append(plans, respPlan{gun: g, posts: p, letters: repeat("nonh2", shots), fatal: true})
		}
		// HTTP/2 frame level: GOAWAY, RST_STREAM (instead of / in the middle of a response), a frame on stream 0, a block
		// that is not HPACK, a flood of SETTINGS and PINGs - and mixtures of them with well-formed responses on the
		// same connections (the next shot of the instance must be unaffected)
		for _, g := range []string{"http2", "http2/scenario"} {
			p := map[string]string{"http2": "none", "http2/scenario": "all"}[g]
			for _, l := range []string{"h2goaway", "h2rst", "h2rstmid", "h2badframe", "h2hpackbad", "h2flood", "s200", "s500"} {
				plans = append(plans, respPlan{gun: g, posts: p, letters: repeat(l, shots), h2raw: true})
				if l == "h2rst" || l == "h2rstmid" || l == "h2goaway" {
					plans = append(plans, respPlan{gun: g, posts: p, letters: repeat(l, shots), h2raw: true, debug: true})
				}
			}
			mixH2 := []string{"s200", "s404", "s500", "shorthdr", "notjson", "h2rst", "h2rstmid", "h2goaway", "h2hpackbad"}
			for m := 0; m < 1+mixes/3; m++ {
				letters := make([]string, shots)
				for i := range letters {
					letters[i] = mixH2[rnd.Intn(len(mixH2))]
				}
				plans = append(plans, respPlan{gun: g, posts: p, letters: letters, h2raw: true, mix: true})
			}
		}
		// TLS handshake level: a target that does speak HTTP/2 but fails a share of the handshakes
		for _, g := range []string{"https", "http2", "http2/scenario"} {
			p := map[string]string{"https": "none", "http2": "none", "http2/scenario": "all"}[g]
			for _, l := range []string{"tlsalert", "tlsclose", "tlsreset"} {
				plans = append(plans, respPlan{gun: g, posts: p, letters: repeat(l, shots), tls: true})
				if g != "http2/scenario" {
					plans = append(plans, respPlan{gun: g, posts: p, letters: repeat(l, shots), tls: true, debug: true})
				}
			}
			if g != "http2/scenario" {
				plans = append(plans, respPlan{gun: g, posts: p, letters: repeat("tlstimeout", shots), tls: true, timeout: true})
			}
		}
	}
	// seeded random mixtures (letters whose effect is confined to their own request)
	mixHTTP := append(append(append(append(append(append(append([]string{}, httpStatus...), httpNet...), httpBody...), httpOdd...), httpList...), httpLenBody...), httpLenNet...)
	mixGrpc := append(append([]string{"gbig", "gtoobig", "gempty", "ggarbage"}, grpcOddCodes...), scentarget.WktLetters()...)
	mixPosts := append(append([]string{}, allPosts...), idxPostNames...)
	for c := 0; c <= 16; c++ {
		mixGrpc = append(mixGrpc, fmt.Sprintf("c%d", c))
	}
	pick := func(from []string) []string {
		out := make([]string, shots)
		for i := range out {
			out[i] = from[rnd.Intn(len(from))]
		}
		return out
	}
	for m := 0; m < mixes; m++ {
		plans = append(plans, respPlan{gun: "http", posts: "none", letters: pick(mixHTTP), mix: true, debug: m%3 == 1})
		if m%3 == 0 {
			plans = append(plans, respPlan{gun: "connect", posts: "none", letters: pick(mixHTTP), mix: true})
		}
		plans = append(plans, respPlan{gun: "http/scenario", posts: mixPosts[rnd.Intn(len(mixPosts))], letters: pick(mixHTTP), mix: true, debug: m%3 == 2})
		if m%2 == 0 {
			plans = append(plans, respPlan{gun: "grpc", posts: "none", letters: pick(mixGrpc), mix: true})
			plans = append(plans, respPlan{gun: "grpc/scenario", posts: "none", letters: pick(mixGrpc), mix: true})
		}
	}
	return plans
}

type respTargets struct {
	raw   *scentarget.RawTarget
	slow  *scentarget.RawTarget
	grpc  *scentarget.GrpcTarget
	h2    *httptest.Server
	h1s   *httptest.Server
	tls   *scentarget.TLSTarget
	h2raw *scentarget.H2RawTarget
	dead  string
}

func h2Handler(w http.ResponseWriter, r *http.Request) {
	l := r.Header.Get("X-Letter")
	code := 200
	if m := statusRe.FindStringSubmatch(l); m != nil {
		fmt.Sscanf(m[1], "%d", &code)
	}
	body, tok := `{"tok":"j7","list":[1,2]}`, "h123456789012345"
	if l == "shorthdr" {
		tok = "ab"
	}
	if l == "notjson" {
		body = "<<<tok: this is { not json"
	}
	w.Header().Set("X-Tok", tok)
	w.WriteHeader(code)
	w.Write([]byte(body))
}

func newTargets(h2 bool) *respTargets {
	t := &respTargets{raw: scentarget.NewRawTarget(), slow: scentarget.NewRawTarget(), grpc: scentarget.NewGrpcTarget()}
	t.slow.Hold = 3 * time.Second
	// a port that is bound but not listening (held for the life of the process): connecting is refused and nobody
	// else - another target of this driver, another check running on the machine - can take it meanwhile
	rp, err := targets.NewRefusedPort()
	if err != nil {
		panic(err)
	}
	t.dead = rp.Addr
	if h2 {
		t.h2 = httptest.NewUnstartedServer(http.HandlerFunc(h2Handler))
		t.h2.EnableHTTP2 = true
		t.h2.StartTLS()
		t.h1s = httptest.NewUnstartedServer(http.HandlerFunc(h2Handler))
		t.h1s.TLS = &tls.Config{NextProtos: []string{"http/1.1"}}
		t.h1s.StartTLS()
		t.tls = scentarget.NewTLSTarget()
		t.h2raw = scentarget.NewH2RawTarget()
	}
	return t
}

func (t *respTargets) close() {
	t.raw.Close()
	t.slow.Close()
	t.grpc.Close()
	if t.h2 != nil {
		t.h2.Close()
		t.h1s.Close()
		t.tls.Close()
		t.h2raw.Close()
	}
}

func runPlan(idx int, p respPlan, t *respTargets, root string) respRun {
	res := respRun{Run: idx, Gun: p.gun, Posts: p.posts, Shots: shots, Inst: 2, AmmoS: p.letters, Fatal: p.fatal, Mix: p.mix,
		Samples: []respSample{}, Variant: "plain", Kind: "letters", Cases: []modCase{}, AVariant: "plain"}
	if p.av != "" {
		res.AVariant = p.av
	}
	casePrefix := fmt.Sprintf("r%d_", idx)
	if p.avail != "" {
		res.Shots = availShots
	}
	if p.sub > 0 {
		res.Kind, res.Vlen, res.Inst = "substr", p.sub-1, 1
		res.Cases = substrCases(res.Vlen)
		res.Shots = len(res.Cases)
		p.letters = repeat(fmt.Sprintf("hv%d", res.Vlen), res.Shots)
		res.AmmoS = p.letters
	}
	if p.debug {
		res.Variant = "debug"
	}
	for _, l := range p.letters {
		res.Ammo = append(res.Ammo, letterOf(l))
	}
	dir := filepath.Join(root, fmt.Sprintf("r%d", idx))
	if err := os.MkdirAll(dir, 0o755); err != nil {
		panic(err)
	}
	defer os.RemoveAll(dir)
	var ammoType, file, text, target, extra string
	seenBefore := int64(0)
	seen := func() int64 { return 0 }
	switch p.gun {
	case "http", "https", "http/scenario", "http2", "http2/scenario", "connect":
		target = t.raw.Addr()
		seen = t.raw.Requests
		if p.timeout {
			target, extra = t.slow.Addr(), "      response-header-timeout: 200ms\n"
			seen = t.slow.Requests
		}
		if p.refused {
			target = t.dead
			seen = func() int64 { return 0 }
		}
		if p.gz {
			extra += "      disable-compression: false\n"
		}
		if p.tunnel {
			t.raw.Tunnel.Store(p.letters[0])
			defer t.raw.Tunnel.Store("")
			seen = func() int64 { return 0 }
		}
		if strings.HasPrefix(p.gun, "http2") {
			target = strings.TrimPrefix(t.h2.URL, "https://")
			if p.fatal {
				target = strings.TrimPrefix(t.h1s.URL, "https://")
			}
			if p.h2raw {
				target = t.h2raw.Addr()
			}
			extra += "      ssl: true\n      tls-handshake-timeout: 60s\n"
			seen = func() int64 { return 0 }
		}
		if p.tls {
			t.tls.SetMode(p.letters[0])
			target = t.tls.Addr()
			hs := "60s"
			if p.letters[0] == "tlstimeout" {
				hs = "150ms"
			}
			extra = "      ssl: true\n      disable-keep-alives: true\n      tls-handshake-timeout: " + hs + "\n"
			seen = func() int64 { return t.tls.Requests.Load() }
		}
		if strings.HasSuffix(p.gun, "/scenario") {
			ammoType, file, text = "http/scenario", filepath.Join(dir, "payload.yaml"), httpScenarioPayload(p.letters, p.posts, p.av)
			if p.sub > 0 {
				text = substrPayload(casePrefix, res.Vlen, res.Cases)
			}
		} else {
			ammoType, file, text = "uri", filepath.Join(dir, "ammo.uri"), uriAmmo(p.letters)
			if p.av == "body" {
				ammoType, file, text = "uripost", filepath.Join(dir, "ammo.uripost"), uripostAmmo(p.letters)
			}
		}
	case "grpc", "grpc/scenario":
		t.grpc.Default.Store("")
		if p.av == "emptydefault" {
			t.grpc.Default.Store(p.letters[0])
		}
		target = t.grpc.Addr()
		seen = t.grpc.Calls
		if p.timeout {
			extra = "      timeout: 100ms\n"
		}
		if p.gun == "grpc" {
			ammoType, file, text = "grpc/json", filepath.Join(dir, "ammo.json"), grpcAmmo(p.letters, p.av)
		} else {
			ammoType, file, text = "grpc/scenario", filepath.Join(dir, "payload.yaml"), grpcScenarioPayload(p.letters, p.av)
		}
	}
	var gate *scentarget.Gate
	if p.avail != "" {
		gate = scentarget.NewGate(target)
		defer gate.Close()
		target = gate.Addr()
		switch {
		case strings.HasPrefix(p.gun, "grpc"):
			extra += "      timeout: 200ms\n"
		case p.gun == "http2":
			extra = "      ssl: true\n      tls-handshake-timeout: 300ms\n      response-header-timeout: 300ms\n"
		default:
			extra += "      response-header-timeout: 200ms\n"
		}
	}
	log := zap.NewNop()
	if p.debug {
		extra += fmt.Sprintf("      answlog:\n        enabled: true\n        filter: all\n        path: %s\n", filepath.Join(dir, "answ.log"))
		if strings.HasPrefix(p.gun, "http") || p.gun == "connect" {
			extra += "      httptrace:\n        dump: true\n        trace: true\n"
		}
		log = zap.New(zapcore.NewCore(zapcore.NewJSONEncoder(zap.NewProductionEncoderConfig()), zapcore.AddSync(io.Discard), zap.DebugLevel))
	}
	seenBefore = seen()
	if err := os.WriteFile(file, []byte(text), 0o644); err != nil {
		panic(err)
	}
	gunType := p.gun
	if gunType == "https" {
		gunType = "http"
	}
	pool := poolYAML(fmt.Sprintf("r%d", idx), gunType, ammoType, file, target, res.Shots, res.Inst, extra)
	if p.avail != "" {
		pool = availPoolYAML(fmt.Sprintf("r%d", idx), gunType, ammoType, file, target, extra)
	}
	conf, err := buildEngineConf(pool, idx%2 == 1)
	if err != nil {
		res.BuildErr = err.Error()
		return res
	}
	agg := &scnRecAggregator{}
	m := engine.Metrics{Request: &monitoring.Counter{}, Response: &monitoring.Counter{},
		InstanceStart: &monitoring.Counter{}, InstanceFinish: &monitoring.Counter{}}
	conf.Engine.Pools[0].Aggregator = agg
	eng := engine.New(log, m, conf.Engine)
	t0 := time.Now()
	over := make(chan struct{})
	if gate != nil {
		// the history: away as soon as the first sample is there - never before: a gun's warm-up (the gRPC guns resolve the
		// target's services by reflection) is over by then, however long a starved machine takes for it (an earlier version went
		// away "at the latest after 1 s" and met the warm-up at load average 250: that is a target that is down at start-up,
		// which may stop a run) -, back 1.8 s after the start and not sooner than 0.6 s after going away
		go func() {
			for len(agg.Samples()) == 0 {
				select {
				case <-over:
					return
				case <-time.After(2 * time.Millisecond):
				}
			}
			gate.SetMode(strings.TrimPrefix(p.avail, "av"))
			back := t0.Add(1800 * time.Millisecond)
			if m := time.Now().Add(600 * time.Millisecond); m.After(back) {
				back = m
			}
			select {
			case <-over:
			case <-time.After(time.Until(back)):
			}
			gate.SetMode("up")
		}()
	}
	limit := runLimit
	if p.timeout { // every call of such a run must end by ITS timeout (0.1 .. 0.3 s): a run that is not over after 40 s
		limit = 40 * time.Second // (normal: 2 .. 5 s) has an instance that is blocked; repeated once alone like any other
	}
	res.RunErr = runEngineWith(eng, limit)
	close(over)
	res.WallMs = int(time.Since(t0) / time.Millisecond)
	res.Fired, res.Answered = int(m.Request.Get()), int(m.Response.Get())
	res.Seen = int(seen() - seenBefore)
	if gate != nil {
		res.Downs = int(gate.Downs.Load())
	}
	if p.tls {
		res.Faults = int(t.tls.Faults.Load())
		t.tls.SetMode("")
	}
	if p.sub > 0 {
		got := t.raw.Echoed(casePrefix)
		for i := range res.Cases {
			v, ok := got[fmt.Sprint(i)]
			c := &res.Cases[i]
			c.Seen, c.Got, c.Start, c.Len = ok, v, -1, -1
			if ok && strings.HasPrefix(v, "[") && strings.HasSuffix(v, "]") {
				inner := v[1 : len(v)-1]
				c.Len = len(inner)
				c.Start = strings.Index(scentarget.HvAlphabet, inner)
			}
		}
	}
	for _, s := range agg.Samples() {
		rs := respSample{Proto: s.Proto, Err: s.Err, Empty: s.Empty, Tags: s.Tags, ErrS: s.ErrS}
		first := strings.Split(s.Tags, "|")[0]
		name := first
		if strings.HasSuffix(p.gun, "/scenario") {
			if i := strings.LastIndex(first, "."); i >= 0 {
				name, rs.Step = first[:i], first[i+1:]
			}
			if i := strings.Index(name, "_"); i >= 0 {
				name = name[i+1:]
			}
			if len(rs.Step) > 1 { // a<i> / b<i> -> a / b
				rs.Step = rs.Step[:1]
			}
		}
		rs.Letter = letterOf(name)
		res.Samples = append(res.Samples, rs)
	}
	return res
}

func responsesMain(args []string) {
	fs := flag.NewFlagSet("responses", flag.ExitOnError)
	out := fs.String("out", "", "trace (ndjson, one line per run)")
	mixes := fs.Int("mix", 6, "seeded random mixtures per gun kind")
	workers := fs.Int("workers", 4, "parallel runs")
	h2 := fs.Bool("h2", true, "include the http2 guns (TLS targets)")
	only := fs.String("only", "", "run only plans whose 'gun posts letter' contains this")
	fs.Parse(args)
	importAll()
	rnd := rand.New(rand.NewSource(vt.Seed()))
	plans := planAll(*mixes, rnd, *h2)
	if *only != "" {
		var sel []respPlan
		for _, p := range plans {
			if strings.Contains(p.gun+" "+p.posts+" "+p.letters[0], *only) {
				sel = append(sel, p)
			}
		}
		plans = sel
	}
	root, err := os.MkdirTemp("", "verif-resp-")
	if err != nil {
		panic(err)
	}
	defer os.RemoveAll(root)
	w := vt.Create(*out)
	defer w.Close()
	results := make([]respRun, len(plans))
	heavy := func(p respPlan) bool {
		return p.avail != "" || p.timeout || p.letters[0] == "big" || p.letters[0] == "hugeheader" || p.letters[0] == "gkill" ||
			p.letters[0] == "gkillmid" || p.letters[0] == "manyheaders"
	}
	order := []int{}
	for j := range plans {
		if heavy(plans[j]) {
			order = append(order, j)
		}
	}
	for j := range plans {
		if !heavy(plans[j]) {
			order = append(order, j)
		}
	}
	next := make(chan int)
	var wg sync.WaitGroup
	for i := 0; i < *workers; i++ {
		wg.Add(1)
		go func() {
			defer wg.Done()
			t := newTargets(*h2)
			defer t.close()
			for j := range next {
				results[j] = runPlan(j, plans[j], t, root)
			}
		}()
	}
	for _, j := range order {
		next <- j
	}
	close(next)
	wg.Wait()
	for j := range results {
		// (an availability run in which no connection met the target while it was away - the engine was starved past the
		// window, seen at load average 180 - observed nothing: it is played again alone too, and judged by the same rules)
		missed := plans[j].avail != "" && results[j].BuildErr == "" && results[j].RunErr == "" && results[j].Downs < 1
		if (strings.Contains(results[j].RunErr, "context deadline exceeded") || missed) && !results[j].Fatal {
			t := newTargets(*h2)
			results[j] = runPlan(j, plans[j], t, root)
			results[j].Retried = true
			t.close()
		}
	}
	for j := range results {
		w.Emit(results[j])
	}
}

// ---------------------------------------------------------------- host-name target that is down at construction
//
// vdrive dnsrace: run as a process of its own (a fatal runtime error cannot be recovered; the parent records the death
// of this process as the observation).  Every round: the http gun is configured with a HOST-NAME target
// (localhost:<port>, default dns-cache) on whose port nothing listens, so the pre-resolve at construction fails and
// the DNS-caching dialer stays in place; N instances fire one shot each (refused), then the target comes up and
// 3N tokens fall due at the same instant: all instances complete their first dial by name together.
func dnsRound(idx, n int, root string) respRun {
	res := respRun{Run: idx, Gun: "http", Posts: "none", Shots: 4 * n, Inst: n, Samples: []respSample{}, Variant: "plain",
		Kind: "letters", Cases: []modCase{}, AVariant: "plain"}
	for i := 0; i < res.Shots; i++ {
		res.Ammo = append(res.Ammo, letterOf("avrefused"))
		res.AmmoS = append(res.AmmoS, "avrefused")
	}
	dir := filepath.Join(root, fmt.Sprintf("d%d", idx))
	if err := os.MkdirAll(dir, 0o755); err != nil {
		panic(err)
	}
	defer os.RemoveAll(dir)
	file := filepath.Join(dir, "ammo.uri")
	if err := os.WriteFile(file, []byte(uriAmmo(res.AmmoS)), 0o644); err != nil {
		panic(err)
	}
	for attempt := 0; ; attempt++ {
		addr := scentarget.Reserve()
		_, port, _ := net.SplitHostPort(addr)
		pool := fmt.Sprintf(`pools:
  - id: "d%d"
    ammo:
      type: uri
      file: %s
    result:
      type: discard
    gun:
      type: http
      target: localhost:%s
    rps:
      - type: once
        times: %d
      - type: const
        ops: 0
        duration: 400ms
      - type: once
        times: %d
    startup:
      - type: once
        times: %d
`, idx, file, port, n, 3*n, n)
		conf, err := buildEngineConf(pool, idx%2 == 1) // the pre-resolve of the target fails here: nothing listens
		if err != nil {
			res.BuildErr = err.Error()
			return res
		}
		agg := &scnRecAggregator{}
		m := engine.Metrics{Request: &monitoring.Counter{}, Response: &monitoring.Counter{},
			InstanceStart: &monitoring.Counter{}, InstanceFinish: &monitoring.Counter{}}
		conf.Engine.Pools[0].Aggregator = agg
		eng := engine.New(zap.NewNop(), m, conf.Engine)
		t0 := time.Now()
		up := make(chan *scentarget.RawTarget, 1)
		go func() {
			for time.Since(t0) < 250*time.Millisecond && len(agg.Samples()) < n {
				time.Sleep(time.Millisecond)
			}
			t, err := scentarget.NewRawTargetAt(addr)
			if err != nil {
				up <- nil
				return
			}
			up <- t
		}()
		res.RunErr = runEngineWith(eng, runLimit)
		tgt := <-up
		if tgt == nil { // somebody else took the port in between: play the round again
			if attempt < 3 {
				continue
			}
			panic("dnsrace: could not listen on the reserved port")
		}
		res.WallMs = int(time.Since(t0) / time.Millisecond)
		res.Fired, res.Answered = int(m.Request.Get()), int(m.Response.Get())
		res.Seen = int(tgt.Requests())
		tgt.Close()
		for _, s := range agg.Samples() {
			res.Samples = append(res.Samples, respSample{Proto: s.Proto, Err: s.Err, Empty: s.Empty, Tags: s.Tags, ErrS: s.ErrS,
				Letter: letterOf(strings.Split(s.Tags, "|")[0])})
		}
		return res
	}
}

func dnsRaceMain(args []string) {
	fs := flag.NewFlagSet("dnsrace", flag.ExitOnError)
	out := fs.String("out", "", "trace (ndjson, one line per round)")
	rounds := fs.Int("rounds", 6, "histories to play (fresh port, i.e. fresh cache key, each)")
	inst := fs.Int("instances", 32, "instances dialling together")
	fs.Parse(args)
	importAll()
	root, err := os.MkdirTemp("", "verif-dns-")
	if err != nil {
		panic(err)
	}
	defer os.RemoveAll(root)
	w := vt.Create(*out)
	defer w.Close()
	for i := 0; i < *rounds; i++ {
		w.Emit(dnsRound(9000+i, *inst, root))
	}
}
