// aggsink: C06 growth, result destinations (core/datasink file sink, phout destination).
//
//	vdrive aggsink -out trace.ndjson -runs N
//
// Real engine.Engine runs with P pools (mock provider / guns), each pool with its own REAL phout or
// jsonlines aggregator writing to a REAL file (afero OsFs in a temp dir) through a recording afero.Fs.
// The destination file exists beforehand with stale content.  Layouts: one pool; two pools with two
// files; two pools configured with the SAME file name.  Recorded:
//
//	SinkRun{run,kind,pools,same,stale}
//	Open{run,h,file,create,trunc,append,wronly}   Write{run,h,n}   Close{run,h}   (h: handle number)
//	Reported{run,pool,n}   (Report calls made by the pool's guns, all returned)
//	EngineEnd{run,err}
//	File{run,file,pool,bytes,lines,malformed,partial,stale_left}   (final content, syntactic check only)
//
// The driver only RECORDS; TraceSink.tla decides.
package main

import (
	"bytes"
	"context"
	"encoding/json"
	"flag"
	"fmt"
	"math/rand"
	"os"
	"path/filepath"
	"sync"
	"sync/atomic"
	"time"

	"github.com/spf13/afero"
	"github.com/yandex/pandora/core"
	"github.com/yandex/pandora/core/aggregator"
	"github.com/yandex/pandora/core/aggregator/netsample"
	"github.com/yandex/pandora/core/datasink"
	"github.com/yandex/pandora/core/engine"
	"github.com/yandex/pandora/core/schedule"
	"github.com/yandex/pandora/lib/monitoring"
	"go.uber.org/zap"

	"verifharness/internal/vt"
)

func init() { register("aggsink", aggSinkMain) }

// recOsFs records how files are opened, written and closed.
type recOsFs struct {
	afero.Fs
	run int
	w   *vt.Writer
	seq int64
}

type recHandle struct {
	afero.File
	fs *recOsFs
	h  int64
}

func (f *recOsFs) open(file afero.File, name string, flag int) afero.File {
	h := atomic.AddInt64(&f.seq, 1)
	f.w.Emit(map[string]interface{}{"ev": "Open", "run": f.run, "h": h, "file": filepath.Base(name),
		"create": flag&os.O_CREATE != 0, "trunc": flag&os.O_TRUNC != 0, "append": flag&os.O_APPEND != 0,
		"wronly": flag&(os.O_WRONLY|os.O_RDWR) != 0})
	return &recHandle{file, f, h}
}
func (f *recOsFs) Create(name string) (afero.File, error) {
	file, err := f.Fs.Create(name)
	if err != nil {
		return nil, err
	}
	return f.open(file, name, os.O_RDWR|os.O_CREATE|os.O_TRUNC), nil // what afero's OsFs.Create / os.Create does
}
func (f *recOsFs) OpenFile(name string, flag int, perm os.FileMode) (afero.File, error) {
	file, err := f.Fs.OpenFile(name, flag, perm)
	if err != nil {
		return nil, err
	}
	return f.open(file, name, flag), nil
}
func (h *recHandle) Write(p []byte) (int, error) {
	n, err := h.File.Write(p)
	h.fs.w.Emit(map[string]interface{}{"ev": "Write", "run": h.fs.run, "h": h.h, "n": n, "err": fmt.Sprint(err)})
	return n, err
}
func (h *recHandle) Close() error {
	err := h.File.Close()
	h.fs.w.Emit(map[string]interface{}{"ev": "Close", "run": h.fs.run, "h": h.h, "err": fmt.Sprint(err)})
	return err
}

type sinkGun struct {
	kind  string
	pool  int
	g     int
	i     int
	r     *rand.Rand
	aggr  core.Aggregator
	count *int64
}

func (g *sinkGun) Bind(a core.Aggregator, deps core.GunDeps) error {
	g.aggr, g.g = a, deps.InstanceID+1
	return nil
}
func (g *sinkGun) Shoot(core.Ammo) {
	g.i++
	abs := genSample(g.r, g.pool*100+g.g, g.i)
	if g.kind == "phout" {
		g.aggr.Report(realSample(abs))
	} else {
		g.aggr.Report(abs)
	}
	atomic.AddInt64(g.count, 1)
}

const staleContent = "STALE CONTENT OF AN EARLIER RUN\nSTALE\nSTALE\n"

func sinkRunOne(run int, r *rand.Rand, w *vt.Writer) {
	dir, err := os.MkdirTemp("", "verif-aggsink-")
	if err != nil {
		panic(err)
	}
	defer os.RemoveAll(dir)
	kind := []string{"phout", "jsonlines"}[r.Intn(2)]
	layout := r.Intn(3) // 0: one pool, 1: two pools two files, 2: two pools one file
	pools := 1
	if layout > 0 {
		pools = 2
	}
	w.Emit(map[string]interface{}{"ev": "SinkRun", "run": run, "kind": kind, "pools": pools, "same": layout == 2,
		"stale": len(staleContent)})
	fs := &recOsFs{Fs: afero.NewOsFs(), run: run, w: w}
	files := []string{}
	counts := make([]int64, pools)
	var confs []engine.InstancePoolConfig
	for p := 0; p < pools; p++ {
		name := filepath.Join(dir, fmt.Sprintf("result%d.out", p))
		if layout == 2 {
			name = filepath.Join(dir, "result.out")
		}
		if p == 0 || layout != 2 {
			files = append(files, name)
			if err := os.WriteFile(name, []byte(staleContent), 0644); err != nil {
				panic(err)
			}
		}
		var a core.Aggregator
		if kind == "phout" {
			conf := netsample.DefaultPhoutConfig()
			conf.Destination = name
			conf.ID = true
			conf.Buffer.BufferSize = 4096
			pa, err := netsample.NewPhout(fs, conf)
			if err != nil {
				panic(err)
			}
			a = netsample.WrapAggregator(pa)
		} else {
			conf := aggregator.DefaultJSONLinesAggregatorConfig()
			conf.Sink = datasink.NewFile(fs, datasink.FileConfig{Path: name})
			conf.FlushInterval = time.Duration(1+r.Intn(20)) * time.Millisecond
			conf.JSONLineEncoderConfig.BufferSizeConfig.BufferSize = 4096
			a = aggregator.NewJSONLinesAggregator(conf)
		}
		total := 150 + r.Intn(400) // > one 4 KiB buffer: several writes per handle
		k := 1 + r.Intn(4)
		pool, seed := p, int64(run*10+p)
		var gseq int64
		confs = append(confs, engine.InstancePoolConfig{
			ID:         fmt.Sprintf("s%d_%d", run, p),
			Provider:   &mockProvider{left: total},
			Aggregator: a,
			NewGun: func() (core.Gun, error) {
				n := atomic.AddInt64(&gseq, 1)
				return &sinkGun{kind: kind, pool: pool, r: rand.New(rand.NewSource(seed*100 + n)), count: &counts[pool]}, nil
			},
			NewRPSSchedule:  func() (core.Schedule, error) { return schedule.NewUnlimited(time.Hour), nil },
			StartupSchedule: schedule.NewOnce(int64(k)),
		})
	}
	m := engine.Metrics{Request: &monitoring.Counter{}, Response: &monitoring.Counter{},
		InstanceStart: &monitoring.Counter{}, InstanceFinish: &monitoring.Counter{}}
	e := engine.New(zap.NewNop(), m, engine.Config{Pools: confs})
	ctx, cancel := context.WithCancel(context.Background())
	defer cancel()
	res := make(chan error, 1)
	go func() { res <- e.Run(ctx) }()
	var engErr error
	select {
	case engErr = <-res:
		e.Wait()
	case <-time.After(60 * time.Second):
		engErr = fmt.Errorf("engine did not finish within 60 s")
	}
	for p := 0; p < pools; p++ {
		w.Emit(map[string]interface{}{"ev": "Reported", "run": run, "pool": p, "n": atomic.LoadInt64(&counts[p])})
	}
	w.Emit(map[string]interface{}{"ev": "EngineEnd", "run": run, "err": fmt.Sprint(engErr)})
	for fi, name := range files {
		b, _ := os.ReadFile(name)
		parts := bytes.Split(b, []byte{'\n'})
		partial, lines := parts[len(parts)-1], parts[:len(parts)-1]
		bad := 0
		for _, ln := range lines {
			ok := false
			if kind == "phout" {
				ok = phoutRe.Match(ln)
			} else {
				var a absSample
				dec := json.NewDecoder(bytes.NewReader(ln))
				dec.DisallowUnknownFields()
				ok = dec.Decode(&a) == nil && a.F != nil && !dec.More()
			}
			if !ok {
				bad++
			}
		}
		w.Emit(map[string]interface{}{"ev": "File", "run": run, "file": filepath.Base(name), "pool": fi, "bytes": len(b),
			"lines": len(lines), "malformed": bad, "partial": len(partial), "stale_left": bytes.Contains(b, []byte("STALE"))})
	}
}

func aggSinkMain(args []string) {
	fs := flag.NewFlagSet("aggsink", flag.ExitOnError)
	out := fs.String("out", "aggsink.ndjson", "trace file")
	runs := fs.Int("runs", 12, "runs")
	fs.Parse(args)
	w := vt.Create(*out)
	defer w.Close()
	r := rand.New(rand.NewSource(aggSeed()*31 + 7))
	var wg sync.WaitGroup
	sem := make(chan struct{}, 4)
	for n := 1; n <= *runs; n++ {
		rr := rand.New(rand.NewSource(r.Int63()))
		wg.Add(1)
		sem <- struct{}{}
		go func(n int) {
			defer wg.Done()
			defer func() { <-sem }()
			sinkRunOne(n, rr, w)
		}(n)
	}
	wg.Wait()
}
