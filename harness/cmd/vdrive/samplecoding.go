// vdrive samplecoding: C10 conformance driver.
//
//	-mode cases : plays every TLC-generated case (SampleCodingGen) against in-process targets with the REAL
//	              guns (http, grpc, http/scenario, grpc/scenario — registered factories, config decoding) and,
//	              for the plain guns, the REAL providers; a recording gun wrapper logs Begin/End of every
//	              shot, the reporting aggregator mock logs (tags, id, proto, net) of every sample.
//	-mode ids   : 8 instances x 500 acquisitions on one real provider, shooting concurrently; same log.
//
// Records only.  Expected samples, the gRPC table, tag rules, one-sample-per-request and id
// injectivity are decided by TLC (spec/SampleCoding.tla through TraceSampleCoding.tla).
package main

import (
	"context"
	"encoding/json"
	"flag"
	"fmt"
	"net"
	"net/http"
	"os"
	"strconv"
	"strings"
	"sync"
	"time"

	"github.com/spf13/afero"
	grpcscn "github.com/yandex/pandora/components/guns/grpc/scenario"
	phttp "github.com/yandex/pandora/components/guns/http"
	httpscn "github.com/yandex/pandora/components/guns/http_scenario"
	grpcpost "github.com/yandex/pandora/components/providers/scenario/grpc/postprocessor"
	grpcpre "github.com/yandex/pandora/components/providers/scenario/grpc/preprocessor"
	httppost "github.com/yandex/pandora/components/providers/scenario/http/postprocessor"
	httppre "github.com/yandex/pandora/components/providers/scenario/http/preprocessor"
	httptempl "github.com/yandex/pandora/components/providers/scenario/http/templater"
	"github.com/yandex/pandora/core"
	"github.com/yandex/pandora/core/aggregator/netsample"
	"go.uber.org/zap"

	"verifharness/internal/targets"
	"verifharness/internal/vt"
)

func init() { register("samplecoding", samplecodingMain) }

type scOut struct {
	Kind   string `json:"kind"`
	Status int    `json:"status"`
}

type scStep struct {
	Name   string `json:"name"`
	Tag    string `json:"tag"`
	Pre    string `json:"pre"` // none | ok | fail | tmplfail
	Out    scOut  `json:"out"` // http: what the target answers
	Status int    `json:"status"`
	Post   string `json:"post"` // none | pass | assertfail | extractfail
	Want   int    `json:"want"` // grpc: code given to the step's status assert (rendered by TLC)
	Sleep  bool   `json:"sleep"`
}

type scCaseC struct {
	Kind string `json:"kind"`
	Out  scOut  `json:"out"`
	Fmt  string `json:"fmt"`
	Tag  string `json:"tag"`
	At   struct {
		Enabled   bool `json:"enabled"`
		Depth     int  `json:"depth"`
		NoTagOnly bool `json:"notagonly"`
	} `json:"at"`
	URI    string          `json:"uri"`
	Status int             `json:"status"`
	What   string          `json:"what"`
	Name   string          `json:"name"`
	Steps  json.RawMessage `json:"steps"` // scenario kinds: []scStep; scncancel: the step labels
	Side   *struct {
		AnswLog string `json:"answlog"` // off | all
		Trace   bool   `json:"trace"`   // httptrace dump + trace
	} `json:"side"`
	Gun  string `json:"gun"`  // scncancel: http | grpc
	N       int      `json:"n"`       // grpcfile: entries in the file
	Pattern []string `json:"pattern"` // grpcfile: entry k is written as pattern[(k-1) % len] says: a tag | "" (no tag key) | "!" (not JSON)
	When string `json:"when"` // scncancel: sleep | exchange | between
}

func (c *scCaseC) steps() []scStep {
	var st []scStep
	if err := json.Unmarshal(c.Steps, &st); err != nil {
		panic(err)
	}
	return st
}

// scEv is one line of the log.
type scEv struct {
	Seq    int             `json:"seq"`
	Ev     string          `json:"ev"` // Reset | Provider | Begin | Report | End | RunBegin | RunEnd
	Inst   string          `json:"inst,omitempty"`
	Insts  []string        `json:"insts,omitempty"`
	CaseID int             `json:"caseid,omitempty"`
	C      json.RawMessage `json:"c,omitempty"`
	ID     int             `json:"id"`             // Begin: id of the ammo (0: ammo has none); Report: id of the sample
	Tags   *[]string       `json:"tags,omitempty"` // Report: always present, possibly empty
	Proto  int             `json:"proto"`
	Net    int             `json:"net"`
	Err    string          `json:"err,omitempty"`
	Seen   []string        `json:"seen,omitempty"`  // End: what the target saw during the shot (evidence only)
	Steps  *[]string       `json:"steps,omitempty"` // End of a scenario shot: the step labels of the requests the target saw
	Note   string          `json:"note,omitempty"`
	N      int             `json:"n,omitempty"`
	R      int             `json:"r,omitempty"`
	First  int             `json:"first,omitempty"` // RunEnd: line number of the run's RunBegin
}

type scLog struct {
	mu  sync.Mutex
	seq int
	w   *vt.Writer
}

// emit writes one line; the sequence number is the line number (written under the mutex: file order = sequence order).
func (l *scLog) emit(e scEv) int {
	l.mu.Lock()
	defer l.mu.Unlock()
	l.seq++
	e.Seq = l.seq
	l.w.Emit(e)
	return l.seq
}

// scAgg is the per-instance reporting aggregator mock.
type scAgg struct {
	inst  string
	log   *scLog
	mu    sync.Mutex
	onRep func(n int) // called after the n-th Report since it was installed
	nrep  int
}

func (a *scAgg) setOnRep(f func(n int)) { a.mu.Lock(); a.onRep, a.nrep = f, 0; a.mu.Unlock() }

func (a *scAgg) Run(ctx context.Context, _ core.AggregatorDeps) error { <-ctx.Done(); return nil }
func (a *scAgg) Report(s core.Sample) {
	ns, ok := s.(*netsample.Sample)
	if !ok {
		panic(fmt.Sprintf("scAgg: sample %T", s))
	}
	e := scEv{Ev: "Report", Inst: a.inst, ID: vt.Small(int64(ns.ID())), Proto: ns.ProtoCode(), Net: hwNetCode(ns)}
	tags := []string{}
	if ns.Tags() != "" {
		tags = strings.Split(ns.Tags(), "|") // phout joins a sample's tags with "|"
	}
	e.Tags = &tags
	if ns.Err() != nil {
		e.Err = ns.Err().Error()
	}
	a.log.emit(e)
	a.mu.Lock()
	a.nrep++
	cb, n := a.onRep, a.nrep
	a.mu.Unlock()
	if cb != nil {
		cb(n)
	}
}

// scShoot wraps one real Shoot between Begin and End.
func scShoot(l *scLog, inst string, g core.Gun, a core.Ammo, caseID int, c json.RawMessage, seen func() []string) {
	id := 0
	if ha, ok := a.(interface{ ID() uint64 }); ok {
		id = vt.Small(int64(ha.ID()))
	}
	l.emit(scEv{Ev: "Begin", Inst: inst, CaseID: caseID, C: c, ID: id})
	g.Shoot(a)
	e := scEv{Ev: "End", Inst: inst, CaseID: caseID}
	if seen != nil {
		e.Seen = seen()
		// projection: scenario requests carry their step's label as the last "/" element
		labels := []string{}
		for _, s := range e.Seen {
			labels = append(labels, s[strings.LastIndex(s, "/")+1:])
		}
		e.Steps = &labels
	}
	l.emit(e)
}

type scEnv struct {
	log     *scLog
	zl      *zap.Logger
	fs      afero.Fs
	rec     *targets.Recorder
	plain   *targets.HTTPTarget
	tls     *targets.HTTPTarget
	refused *targets.RefusedPort
	grpc    *targets.GRPCTarget
	guns    map[string]core.Gun
	agg     *scAgg
	answDir string
}

func (e *scEnv) gun(key string, m map[string]interface{}, yamlShape bool, cache bool) core.Gun {
	if g, ok := e.guns[key]; ok && cache {
		return g
	}
	f, err := hwDecodeGunFactory(m, yamlShape)
	if err != nil {
		panic(fmt.Sprintf("gun %s: %v", key, err))
	}
	g, err := hwNewGun(f, e.agg, context.Background(), e.zl, 0, &hwShared{})
	if err != nil {
		panic(fmt.Sprintf("gun %s: %v", key, err))
	}
	if cache {
		e.guns[key] = g
	}
	return g
}

func (e *scEnv) httpTarget(ssl bool) *targets.HTTPTarget {
	if ssl {
		return e.tls
	}
	return e.plain
}

func (e *scEnv) seenHTTP() []string {
	out := []string{}
	for _, ev := range e.rec.Drain() {
		if ev.Ev == "Req" {
			out = append(out, ev.Method+" "+ev.URI)
		}
	}
	return out
}

// one ammo through a real provider: Acquire, shoot (wrapped), Release, stop.
func (e *scEnv) viaProvider(pm map[string]interface{}, yamlShape bool, g core.Gun, cs hwCase, seen func() []string) {
	prov, err := hwDecodeProvider(pm, yamlShape)
	if err != nil {
		panic(fmt.Sprintf("case %d provider: %v", cs.ID, err))
	}
	stop := hwRunProvider(prov, e.zl)
	e.log.emit(scEv{Ev: "Provider"}) // ids are unique per provider
	a, ok := prov.Acquire()
	if !ok {
		panic(fmt.Sprintf("case %d: provider gave no ammo", cs.ID))
	}
	scShoot(e.log, "m2", g, a, cs.ID, cs.C, seen)
	prov.Release(a)
	if err := stop(); err != nil {
		panic(fmt.Sprintf("case %d provider run: %v", cs.ID, err))
	}
}

func (e *scEnv) writeFile(id int, content string) string {
	path := fmt.Sprintf("/sc/c%d.ammo", id)
	if err := afero.WriteFile(e.fs, path, []byte(content), 0o644); err != nil {
		panic(err)
	}
	return path
}

// scInvalidAmmo is an http ammo flagged invalid by its provider.
type scInvalidAmmo struct{ req *http.Request }

func (a scInvalidAmmo) Request() (*http.Request, *netsample.Sample) {
	s := netsample.Acquire("")
	s.SetID(7)
	return a.req, s
}
func (a scInvalidAmmo) ID() uint64      { return 7 }
func (a scInvalidAmmo) IsInvalid() bool { return true }

var _ phttp.Ammo = scInvalidAmmo{}

type scVars struct{}

func (scVars) Variables() map[string]any { return map[string]any{"k": "v"} }

func scBehPath(o scOut, name string) string {
	return fmt.Sprintf("/__beh/%s/%d/%s", o.Kind, o.Status, name)
}

func (e *scEnv) runCase(cs hwCase) {
	var c scCaseC
	if err := json.Unmarshal(cs.C, &c); err != nil {
		panic(err)
	}
	yamlShape := cs.ID%2 == 1
	e.rec.Drain()
	switch c.Kind {
	case "http":
		ssl := c.Out.Kind == "status" && cs.ID%2 == 0
		tgt := e.httpTarget(ssl)
		gm := map[string]interface{}{"type": "http", "target": tgt.Addr(), "ssl": ssl}
		key := fmt.Sprintf("http/%v", ssl)
		switch c.Out.Kind {
		case "timeout":
			gm["response-header-timeout"] = "150ms"
			key = "http/timeout"
		case "refused":
			gm["target"] = e.refused.Addr
			key = "http/refused"
		}
		if c.Side != nil { // the gun's side channels look on: answer log (own file) and httptrace dump + trace
			gm["httptrace"] = map[string]interface{}{"dump": c.Side.Trace, "trace": c.Side.Trace}
			if c.Side.AnswLog != "off" {
				gm["answlog"] = map[string]interface{}{"enabled": true, "filter": c.Side.AnswLog,
					"path": fmt.Sprintf("%s/answ_%s_%v.log", e.answDir, c.Side.AnswLog, c.Side.Trace)}
			}
			key += fmt.Sprintf("/side/%s/%v", c.Side.AnswLog, c.Side.Trace)
		}
		tgt.Set(map[string]targets.Behaviour{
			"status":    {Kind: "status", Status: c.Out.Status},
			"truncated": {Kind: "truncate", Status: c.Out.Status},
			"resetbody": {Kind: "resetbody", Status: c.Out.Status},
			"reset":     {Kind: "reset"},
			"timeout":   {Kind: "stall"},
			"refused":   {Kind: "status", Status: 200},
		}[c.Out.Kind])
		path := e.writeFile(cs.ID, "/x\n")
		e.viaProvider(map[string]interface{}{"type": "uri", "file": path, "limit": 1}, yamlShape, e.gun(key, gm, yamlShape, true), cs, e.seenHTTP)
		tgt.Set(targets.Behaviour{})
	case "tag":
		tgt := e.plain
		gm := map[string]interface{}{"type": "http", "target": tgt.Addr()}
		if c.At.Enabled {
			gm["auto-tag"] = map[string]interface{}{"enabled": true, "uri-elements": c.At.Depth, "no-tag-only": c.At.NoTagOnly}
		}
		key := fmt.Sprintf("tag/%v/%d/%v", c.At.Enabled, c.At.Depth, c.At.NoTagOnly)
		var typ, file string
		sp := ""
		if c.Tag != "" {
			sp = " " + c.Tag
		}
		switch c.Fmt {
		case "uri":
			typ, file = "uri", c.URI+sp+"\n"
		case "uripost":
			typ, file = "uripost", "0 "+c.URI+sp+"\n"
		case "raw":
			req := "GET " + c.URI + " HTTP/1.1\r\nHost: x.test\r\n\r\n"
			typ, file = "raw", fmt.Sprintf("%d%s\n%s\n", len(req), sp, req)
		case "json":
			m := map[string]interface{}{"method": "GET", "uri": c.URI, "host": "x.test"}
			if c.Tag != "" {
				m["tag"] = c.Tag
			}
			js, _ := json.Marshal(m)
			typ, file = "http/json", string(js)+"\n"
		default:
			panic("fmt " + c.Fmt)
		}
		path := e.writeFile(cs.ID, file)
		e.viaProvider(map[string]interface{}{"type": typ, "file": path, "limit": 1}, yamlShape, e.gun(key, gm, yamlShape, true), cs, e.seenHTTP)
	case "grpc", "grpcbad":
		gm := map[string]interface{}{"type": "grpc", "target": e.grpc.Addr()}
		line := map[string]interface{}{"tag": "g", "call": "target.TargetService.Hello", "payload": map[string]interface{}{"name": fmt.Sprintf("code:%d", c.Status)}}
		switch c.What {
		case "unknown_method":
			line["call"] = "target.TargetService.NoSuchMethod"
		case "bad_payload":
			line["payload"] = map[string]interface{}{"name": map[string]interface{}{"not": "a string"}}
		}
		js, _ := json.Marshal(line)
		path := e.writeFile(cs.ID, string(js)+"\n")
		e.grpc.Calls()
		e.viaProvider(map[string]interface{}{"type": "grpc/json", "file": path, "limit": 1, "passes": 1}, yamlShape, e.gun("grpc", gm, yamlShape, true), cs, e.grpc.Calls)
	case "grpcfile":
		// ONE heterogeneous grpc/json file through ONE provider and the real gun, as an engine instance does it:
		// Acquire, Shoot, Release, entry after entry.  The provider decodes into pooled ammo objects (queue: 128):
		// most of a file longer than that is shot with objects an earlier entry used (counted: End.note).
		gm := map[string]interface{}{"type": "grpc", "target": e.grpc.Addr()}
		var sb strings.Builder
		for k := 0; k < c.N; k++ {
			line := map[string]interface{}{"call": "target.TargetService.Hello", "payload": map[string]interface{}{"name": "code:0"}}
			switch el := c.Pattern[k%len(c.Pattern)]; el {
			case "!":
				sb.WriteString(fmt.Sprintf("this is not json %d\n", k+1))
				continue
			case "":
			default:
				line["tag"] = el
			}
			js, _ := json.Marshal(line)
			sb.Write(js)
			sb.WriteByte('\n')
		}
		path := e.writeFile(cs.ID, sb.String())
		gm["timeout"] = "120s" // a loaded machine must not turn a slow call into a deadline
		g := e.gun("grpcfile", gm, yamlShape, true)
		prov, err := hwDecodeProvider(map[string]interface{}{"type": "grpc/json", "file": path, "passes": 1, "continueonerror": true}, yamlShape)
		if err != nil {
			panic(fmt.Sprintf("case %d provider: %v", cs.ID, err))
		}
		stop := hwRunProvider(prov, e.zl)
		e.log.emit(scEv{Ev: "Provider"})
		e.grpc.Calls()
		e.log.emit(scEv{Ev: "Begin", Inst: "m2", CaseID: cs.ID, C: cs.C})
		seenObj := map[core.Ammo]bool{}
		recycled := 0
		for k := 0; k < c.N; k++ {
			a, ok := prov.Acquire()
			if !ok {
				break
			}
			if seenObj[a] {
				recycled++
			}
			seenObj[a] = true
			g.Shoot(a)
			prov.Release(a)
		}
		e.log.emit(scEv{Ev: "End", Inst: "m2", CaseID: cs.ID, Note: fmt.Sprintf("recycled=%d calls=%d", recycled, len(e.grpc.Calls()))})
		if err := stop(); err != nil {
			panic(fmt.Sprintf("case %d provider run: %v", cs.ID, err))
		}
	case "grpcfail":
		// statuses the CLIENT produces: nobody listens at the target (reflection is served elsewhere), or the
		// target never answers within the gun's timeout
		_, port, _ := net.SplitHostPort(e.grpc.Addr())
		rp, _ := strconv.Atoi(port)
		gm := map[string]interface{}{"type": "grpc", "target": e.grpc.Addr()}
		name := "code:0"
		key := "grpcfail/" + c.What
		switch c.What {
		case "refused":
			gm["target"] = e.refused.Addr
			gm["reflect_port"] = rp
		case "timeout":
			gm["timeout"] = "150ms"
			name = "stall"
		default:
			panic("grpcfail " + c.What)
		}
		js, _ := json.Marshal(map[string]interface{}{"tag": "g", "call": "target.TargetService.Hello", "payload": map[string]interface{}{"name": name}})
		path := e.writeFile(cs.ID, string(js)+"\n")
		e.grpc.Calls()
		e.viaProvider(map[string]interface{}{"type": "grpc/json", "file": path, "limit": 1, "passes": 1}, yamlShape, e.gun(key, gm, yamlShape, true), cs, e.grpc.Calls)
	case "invalid":
		gm := map[string]interface{}{"type": "http", "target": e.plain.Addr()}
		req, _ := http.NewRequest("GET", "/x", nil)
		e.log.emit(scEv{Ev: "Provider"})
		scShoot(e.log, "m2", e.gun("http/false", gm, yamlShape, true), scInvalidAmmo{req: req}, cs.ID, cs.C, e.seenHTTP)
	case "httpscn":
		gm := map[string]interface{}{"type": "http/scenario", "target": e.plain.Addr()}
		g := e.gun("httpscn", gm, yamlShape, true)
		sc := &httpscn.Scenario{Name: c.Name, ID: uint64(cs.ID), VariableStorage: scVars{}}
		tm := httptempl.NewTextTemplater() // fresh template cache per case (the cache is keyed by scenario/step name)
		for _, st := range c.steps() {
			rq := httpscn.Request{Method: "GET", Name: st.Name, URI: scBehPath(st.Out, st.Name), Templater: tm}
			// REAL pre/postprocessor objects of components/providers/scenario/http
			switch st.Pre {
			case "ok":
				rq.Preprocessor = &httppre.Preprocessor{Mapping: map[string]string{"v": "source.k"}}
			case "fail": // refers to a variable that does not exist: fails before anything is sent
				rq.Preprocessor = &httppre.Preprocessor{Mapping: map[string]string{"v": "request.nosuchstep.x"}}
			case "tmplfail": // the request template cannot be rendered
				rq.URI += "{{ index .source.k 7 }}"
			}
			switch st.Post {
			case "pass":
				rq.Postprocessors = []httpscn.Postprocessor{httppost.AssertResponse{StatusCode: st.Out.Status}}
			case "assertfail":
				rq.Postprocessors = []httpscn.Postprocessor{httppost.AssertResponse{StatusCode: 299}}
			case "extractfail": // the target's body is not JSON
				rq.Postprocessors = []httpscn.Postprocessor{&httppost.VarJsonpathPostprocessor{Mapping: map[string]string{"x": "$.a"}}}
			}
			if st.Sleep {
				rq.Sleep = time.Millisecond
			}
			sc.Requests = append(sc.Requests, rq)
		}
		scShoot(e.log, "m2", g, sc, cs.ID, cs.C, e.seenHTTP)
	case "grpcscn":
		gm := map[string]interface{}{"type": "grpc/scenario", "target": e.grpc.Addr()}
		g := e.gun("grpcscn", gm, yamlShape, true)
		sc := &grpcscn.Scenario{Name: c.Name, VariableStorage: scVars{}}
		sc.SetID(uint64(cs.ID))
		for i, st := range c.steps() {
			// the gun's template cache is keyed by scenario name + step NAME: unique names per case (the tag is the step's Tag)
			call := grpcscn.Call{Name: fmt.Sprintf("c%d_call%d", cs.ID, i+1), Tag: st.Tag, Call: "target.TargetService.Hello",
				Payload: []byte(fmt.Sprintf(`{"name":"code:%d/%s"}`, st.Status, st.Tag))}
			switch st.Pre {
			case "ok":
				call.Preprocessors = []grpcscn.Preprocessor{&grpcpre.PreparePreprocessor{Mapping: map[string]string{"v": "source.k"}}}
			case "fail":
				call.Preprocessors = []grpcscn.Preprocessor{&grpcpre.PreparePreprocessor{Mapping: map[string]string{"v": "request.nosuchstep.x"}}}
			case "tmplfail":
				call.Payload = []byte(`{"name":"{{ index .source.k 7 }}"}`)
			}
			switch st.Post {
			case "pass", "assertfail": // assert on the status (HTTP-style code)
				call.Postprocessors = []grpcscn.Postprocessor{grpcpost.AssertResponse{StatusCode: st.Want}}
			case "extractfail": // assert on a payload that is not there
				call.Postprocessors = []grpcscn.Postprocessor{grpcpost.AssertResponse{Payload: []string{"never-there"}}}
			}
			sc.Calls = append(sc.Calls, call)
		}
		e.grpc.Calls()
		scShoot(e.log, "m2", g, sc, cs.ID, cs.C, e.grpc.Calls)
	case "scncancel":
		e.runCancel(cs, &c, yamlShape)
	default:
		panic("case kind " + c.Kind)
	}
}

// runCancel: a three-step scenario shot with a gun of its own whose context is cancelled while the shot runs -
// during step 1's sleep (some time after its sample), during step 1's exchange (the target has the request and
// answers late), or between steps 1 and 2 (from inside the Report of sample 1).
func (e *scEnv) runCancel(cs hwCase, c *scCaseC, yamlShape bool) {
	var labels []string
	if err := json.Unmarshal(c.Steps, &labels); err != nil {
		panic(err)
	}
	ctx, cancel := context.WithCancel(context.Background())
	defer cancel()
	agg := &scAgg{inst: "m2", log: e.log}
	typ, target := "http/scenario", e.plain.Addr()
	if c.Gun == "grpc" {
		typ, target = "grpc/scenario", e.grpc.Addr()
	}
	f, err := hwDecodeGunFactory(map[string]interface{}{"type": typ, "target": target}, yamlShape)
	if err != nil {
		panic(err)
	}
	g, err := hwNewGun(f, agg, ctx, e.zl, 0, &hwShared{})
	if err != nil {
		panic(err)
	}
	sleep := time.Duration(0)
	switch c.When {
	case "sleep":
		sleep = 500 * time.Millisecond
		agg.setOnRep(func(n int) {
			if n == 1 {
				time.AfterFunc(30*time.Millisecond, cancel) // lands in step 1's sleep (if the machine is slow: later - any moment is legitimate)
			}
		})
	case "between":
		agg.setOnRep(func(n int) {
			if n == 1 {
				cancel()
			}
		})
	case "exchange":
		var once sync.Once
		e.plain.OnReq(func(string) { once.Do(cancel) })
		e.grpc.OnCall(func(string) { once.Do(cancel) })
		defer e.plain.OnReq(nil)
		defer e.grpc.OnCall(nil)
	}
	if c.Gun == "http" {
		sc := &httpscn.Scenario{Name: c.Name, ID: uint64(cs.ID), VariableStorage: scVars{}}
		tm := httptempl.NewTextTemplater()
		for i, lb := range labels {
			o := scOut{Kind: "status", Status: 200}
			if c.When == "exchange" && i == 0 {
				o = scOut{Kind: "delay", Status: 200}
			}
			rq := httpscn.Request{Method: "GET", Name: lb, URI: scBehPath(o, lb), Templater: tm}
			if i == 0 {
				rq.Sleep = sleep
			}
			sc.Requests = append(sc.Requests, rq)
		}
		scShoot(e.log, "m2", g, sc, cs.ID, cs.C, e.seenHTTP)
		return
	}
	sc := &grpcscn.Scenario{Name: c.Name, VariableStorage: scVars{}}
	sc.SetID(uint64(cs.ID))
	for i, lb := range labels {
		name := "code:0/" + lb
		if c.When == "exchange" && i == 0 {
			name = "slow/" + lb
		}
		call := grpcscn.Call{Name: fmt.Sprintf("c%d_call%d", cs.ID, i+1), Tag: lb, Call: "target.TargetService.Hello",
			Payload: []byte(fmt.Sprintf(`{"name":"%s"}`, name))}
		if i == 0 {
			call.Sleep = sleep
		}
		sc.Calls = append(sc.Calls, call)
	}
	e.grpc.Calls()
	scShoot(e.log, "m2", g, sc, cs.ID, cs.C, e.grpc.Calls)
}

func samplecodingMain(args []string) {
	fl := flag.NewFlagSet("samplecoding", flag.ExitOnError)
	mode := fl.String("mode", "cases", "cases | ids")
	casesPath := fl.String("cases", "", "TLC-generated case file")
	outPath := fl.String("out", "", "output NDJSON")
	nInst := fl.Int("n", 8, "ids mode: instances")
	nAcq := fl.Int("r", 500, "ids mode: acquisitions per instance")
	rounds := fl.Int("rounds", 1, "ids mode: 1 = streaming provider, 2 = + preloaded provider")
	_ = fl.Parse(args)
	w := vt.Create(*outPath)
	defer w.Close()
	l := &scLog{w: w}
	fs := hwImport()
	rec := &targets.Recorder{}
	switch *mode {
	case "cases":
		e := &scEnv{log: l, zl: zap.NewNop(), fs: fs, rec: rec, guns: map[string]core.Gun{}, agg: &scAgg{inst: "m2", log: l}}
		e.answDir = *outPath + ".answlog"
		if err := os.MkdirAll(e.answDir, 0o755); err != nil {
			panic(err)
		}
		defer os.RemoveAll(e.answDir)
		e.plain = targets.NewHTTP("target", false, rec)
		e.tls = targets.NewHTTP("target", true, rec)
		defer e.plain.Close()
		defer e.tls.Close()
		var err error
		if e.refused, err = targets.NewRefusedPort(); err != nil {
			panic(err)
		}
		defer e.refused.Close()
		if e.grpc, err = targets.NewGRPC(); err != nil {
			panic(err)
		}
		defer e.grpc.Close()
		f, err := os.ReadFile(*casesPath)
		if err != nil {
			panic(err)
		}
		for k, ln := range strings.Split(strings.TrimSpace(string(f)), "\n") {
			if k%20 == 0 {
				// a restart point for the trace walk: everything is idle here
				l.emit(scEv{Ev: "Reset", Insts: []string{"m2"}})
			}
			var cs hwCase
			if err := json.Unmarshal([]byte(ln), &cs); err != nil {
				panic(err)
			}
			e.runCase(cs)
		}
	case "ids":
		scIdsMain(l, fs, rec, *nInst, *nAcq, *rounds)
	default:
		panic("mode")
	}
}

// scIdsMain: n instances (own gun, own aggregator view) acquire from ONE real provider concurrently and shoot.
func scIdsMain(l *scLog, fs afero.Fs, rec *targets.Recorder, n, r, rounds int) {
	zl := zap.NewNop()
	tgt := targets.NewHTTP("target", false, rec)
	defer tgt.Close()
	insts := []string{}
	for i := 0; i < n; i++ {
		insts = append(insts, fmt.Sprintf("i%d", i+1))
	}
	c := json.RawMessage(`{"kind":"http","out":{"kind":"status","status":200}}`)
	seed := int(vt.Seed())
	for round, preload := range []bool{false, true}[:rounds] {
		note := fmt.Sprintf("instances=%d acquisitions=%d preload=%v", n, r, preload)
		var b strings.Builder
		for k := 0; k < 7+seed%5; k++ {
			fmt.Fprintf(&b, "/id/%d\n", k)
		}
		path := fmt.Sprintf("/sc/ids%d.ammo", round)
		if err := afero.WriteFile(fs, path, []byte(b.String()), 0o644); err != nil {
			panic(err)
		}
		prov, err := hwDecodeProvider(map[string]interface{}{"type": "uri", "file": path, "limit": n * r, "preload": preload}, round == 1)
		if err != nil {
			panic(err)
		}
		newGun, err := hwDecodeGunFactory(map[string]interface{}{"type": "http", "target": tgt.Addr()}, round == 1)
		if err != nil {
			panic(err)
		}
		shared := &hwShared{}
		guns := []core.Gun{}
		for i := 0; i < n; i++ {
			g, err := hwNewGun(newGun, &scAgg{inst: insts[i], log: l}, context.Background(), zl, i, shared)
			if err != nil {
				panic(err)
			}
			guns = append(guns, g)
		}
		stop := hwRunProvider(prov, zl)
		first := l.emit(scEv{Ev: "RunBegin", N: n, R: r, Note: note})
		const wave = 50 // acquisitions per instance between two restart points of the trace walk
		for done := 0; done < r; done += wave {
			l.emit(scEv{Ev: "Reset", Insts: insts}) // all instances are idle here (barrier below)
			var wg sync.WaitGroup
			for i := 0; i < n; i++ {
				wg.Add(1)
				go func(i int) {
					defer wg.Done()
					for k := done; k < r && k < done+wave; k++ {
						a, ok := prov.Acquire()
						if !ok {
							return
						}
						scShoot(l, insts[i], guns[i], a, 0, c, nil)
						prov.Release(a)
					}
				}(i)
			}
			wg.Wait()
		}
		if err := stop(); err != nil {
			panic(err)
		}
		rec.Drain()
		l.emit(scEv{Ev: "RunEnd", N: n, R: r, First: first})
	}
}
