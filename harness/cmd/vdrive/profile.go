package main

// C01 driver: builds load profiles through the real constructors and through the real
// config decoding path (core/import registration + config.Decode), starts them at a fixed
// instant, draws every token and records the instants relative to the start as BigNat limbs.
// It records; TraceProfile.tla decides.

import (
	"flag"
	"fmt"
	"math/rand"
	"sort"
	"sync"
	"sync/atomic"
	"time"

	"github.com/spf13/afero"
	"github.com/yandex/pandora/core"
	"github.com/yandex/pandora/core/config"
	coreimport "github.com/yandex/pandora/core/import"
	"github.com/yandex/pandora/core/schedule"

	"verifharness/internal/vt"
)

func init() { register("profile", profileMain) }

type profSpec struct {
	Kind  string `json:"kind"`
	FromM int    `json:"from_m"`
	ToM   int    `json:"to_m"`
	Step  int    `json:"step"`
	Times int    `json:"times"`
	DurNs int64  `json:"-"`
}

type profLine struct {
	profSpec
	Dur     []int   `json:"dur"`
	Via     string  `json:"via"`
	Left0   int     `json:"left0"`
	N       int     `json:"n"`
	Neg     bool    `json:"neg"` // some instant was before the start
	Ts      [][]int `json:"ts"`
	After   [][]int `json:"after"`
	AfterOk []bool  `json:"after_ok"`
	LeftEnd int     `json:"left_end"`
	Err     string  `json:"err"`
}

func (p profSpec) estTokens() float64 {
	d := float64(p.DurNs) / 1e9
	switch p.Kind {
	case "once":
		return float64(p.Times)
	case "step":
		n := 0.0
		for r := float64(p.FromM) / 1000; r <= float64(p.ToM)/1000; r += float64(p.Step) {
			n += r * d
		}
		return n
	}
	return (float64(p.FromM) + float64(p.ToM)) / 2000 * d
}

func (p profSpec) build(via string) (s core.Schedule, err error) {
	from, to := float64(p.FromM)/1000, float64(p.ToM)/1000
	d := time.Duration(p.DurNs)
	if via == "ctor" {
		switch p.Kind {
		case "const":
			return schedule.NewConst(from, d), nil
		case "line":
			return schedule.NewLine(from, to, d), nil
		case "step":
			return schedule.NewStep(from, to, int64(p.Step), d), nil
		case "once":
			return schedule.NewOnce(int64(p.Times)), nil
		}
		panic("kind")
	}
	m := map[string]interface{}{"type": p.Kind}
	switch p.Kind {
	case "const":
		m["ops"], m["duration"] = from, d.String()
	case "line":
		m["from"], m["to"], m["duration"] = from, to, d.String()
	case "step":
		m["from"], m["to"], m["step"], m["duration"] = from, to, p.Step, d.String()
	case "once":
		m["times"] = p.Times
	}
	var holder struct {
		Rps core.Schedule `validate:"required"`
	}
	err = config.DecodeAndValidate(map[string]interface{}{"rps": m}, &holder)
	return holder.Rps, err
}

func runProfile(p profSpec, via string, maxTokens int) profLine {
	out := profLine{profSpec: p, Dur: vt.Limbs(p.DurNs), Via: via, Ts: [][]int{}, After: [][]int{}, AfterOk: []bool{}}
	s, err := p.build(via)
	if err != nil {
		out.Err = err.Error()
		return out
	}
	if l := int64(s.Left()); l >= 1<<31 || l < -(1<<31) {
		out.Err = fmt.Sprintf("Left() before start = %d", l)
		return out
	} else {
		out.Left0 = int(l)
	}
	t0 := time.Unix(1700000000, 0) // fixed start: nothing depends on the wall clock
	s.Start(t0)
	for {
		t, ok := s.Next()
		if !ok {
			out.After = append(out.After, relLimbs(t, t0, &out.Neg))
			out.AfterOk = append(out.AfterOk, ok)
			break
		}
		out.Ts = append(out.Ts, relLimbs(t, t0, &out.Neg))
		if len(out.Ts) > maxTokens {
			out.Err = "more tokens than the driver's cap"
			return out
		}
	}
	for i := 0; i < 2; i++ {
		t, ok := s.Next()
		out.After = append(out.After, relLimbs(t, t0, &out.Neg))
		out.AfterOk = append(out.AfterOk, ok)
	}
	out.N = len(out.Ts)
	if l := int64(s.Left()); l >= 1<<31 || l < -(1<<31) {
		out.Err = fmt.Sprintf("Left() after exhaustion = %d", l)
	} else {
		out.LeftEnd = int(l)
	}
	return out
}

// runProfileConcurrent drains the profile with G goroutines released together (as G instances sharing one RPS
// schedule do) and records the instants in ascending order: the multiset of tokens a profile hands out does not
// depend on who asks, so the line must satisfy the same TraceProfile invariants as a sequential drain.
func runProfileConcurrent(p profSpec, G int, maxTokens int) profLine {
	out := profLine{profSpec: p, Dur: vt.Limbs(p.DurNs), Via: "concurrent", Ts: [][]int{}, After: [][]int{}, AfterOk: []bool{}}
	s, err := p.build("ctor")
	if err != nil {
		out.Err = err.Error()
		return out
	}
	out.Left0 = int(s.Left())
	t0 := time.Unix(1700000000, 0)
	s.Start(t0)
	var gate int32
	var wg sync.WaitGroup
	toks := make([][]time.Time, G)
	ends := make([][]time.Time, G)
	for g := 0; g < G; g++ {
		g := g
		wg.Add(1)
		go func() {
			defer wg.Done()
			for atomic.LoadInt32(&gate) == 0 {
			}
			for len(toks[g]) <= maxTokens {
				t, ok := s.Next()
				if !ok {
					ends[g] = append(ends[g], t)
					break
				}
				toks[g] = append(toks[g], t)
			}
			for i := 0; i < 2; i++ {
				t, _ := s.Next()
				ends[g] = append(ends[g], t)
			}
		}()
	}
	atomic.StoreInt32(&gate, 1)
	wg.Wait()
	var all []time.Time
	for g := 0; g < G; g++ {
		all = append(all, toks[g]...)
	}
	sort.Slice(all, func(i, j int) bool { return all[i].Before(all[j]) })
	if len(all) > maxTokens {
		out.Err = "more tokens than the driver's cap"
		return out
	}
	for _, t := range all {
		out.Ts = append(out.Ts, relLimbs(t, t0, &out.Neg))
	}
	// the finish instants reported to three different callers
	for g := 0; g < G && len(out.After) < 3; g++ {
		for _, t := range ends[g] {
			if len(out.After) < 3 {
				out.After = append(out.After, relLimbs(t, t0, &out.Neg))
				out.AfterOk = append(out.AfterOk, false)
			}
		}
	}
	// every finish instant every caller saw must be the same one: record a disagreeing one instead of the third
	for g := 0; g < G; g++ {
		for _, t := range ends[g] {
			if len(ends[0]) > 0 && !t.Equal(ends[0][0]) {
				out.After[2] = relLimbs(t, t0, &out.Neg)
			}
		}
	}
	out.N = len(out.Ts)
	out.LeftEnd = int(s.Left())
	return out
}

type profDrain struct {
	N    int     `json:"n"`
	Neg  bool    `json:"neg"`
	Fins [][]int `json:"fins"` // DISTINCT finish instants reported to the callers of this drain
	Left int     `json:"left"`
}

type profMany struct {
	profSpec
	Dur    []int       `json:"dur"`
	Via    string      `json:"via"`
	Left0  int         `json:"left0"`
	Drains []profDrain `json:"drains"`
}

// runProfileMany: `drains` concurrent drains (G goroutines released together) of fresh copies of one profile; per
// drain only the number of operations, whether any lay before the start, the distinct finish instants and Left().
func runProfileMany(p profSpec, G, drains int) profMany {
	out := profMany{profSpec: p, Dur: vt.Limbs(p.DurNs), Via: "many", Drains: []profDrain{}}
	for d := 0; d < drains; d++ {
		s, err := p.build("ctor")
		if err != nil {
			panic(err)
		}
		if d == 0 {
			out.Left0 = int(s.Left())
		}
		t0 := time.Unix(1700000000, 0)
		s.Start(t0)
		var gate int32
		var wg sync.WaitGroup
		var n int64
		var negs int32
		var mu sync.Mutex
		fins := map[int64]bool{}
		for g := 0; g < G; g++ {
			wg.Add(1)
			go func() {
				defer wg.Done()
				for atomic.LoadInt32(&gate) == 0 {
				}
				for {
					t, ok := s.Next()
					if !ok {
						mu.Lock()
						fins[int64(t.Sub(t0))] = true
						mu.Unlock()
						return
					}
					if t.Before(t0) {
						atomic.StoreInt32(&negs, 1)
					}
					if atomic.AddInt64(&n, 1) > 10000000 {
						return
					}
				}
			}()
		}
		atomic.StoreInt32(&gate, 1)
		wg.Wait()
		dr := profDrain{N: int(n), Neg: negs != 0, Fins: [][]int{}, Left: int(s.Left())}
		var fs []int64
		for f := range fins {
			fs = append(fs, f)
		}
		sort.Slice(fs, func(i, j int) bool { return fs[i] < fs[j] })
		for _, f := range fs {
			if f < 0 {
				dr.Neg = true
				if f = -f; f < 0 {
					f = 1<<63 - 1
				}
			}
			dr.Fins = append(dr.Fins, vt.Limbs(f))
		}
		out.Drains = append(out.Drains, dr)
	}
	return out
}

func relLimbs(t, t0 time.Time, neg *bool) []int {
	d := t.Sub(t0)
	if d < 0 {
		*neg = true
		if d = -d; d < 0 { // -MinInt64 overflows (an instant computed from -Inf)
			d = 1<<63 - 1
		}
	}
	return vt.Limbs(int64(d))
}

var profRates = []int{0, 100, 500, 1000, 2500, 7000, 10000, 33300, 100000, 1000000}
var profDurs = []time.Duration{time.Millisecond, 10 * time.Millisecond, 250 * time.Millisecond, 500 * time.Millisecond,
	999 * time.Millisecond, time.Second, 1500 * time.Millisecond, 2 * time.Second, 2750 * time.Millisecond,
	10 * time.Second, 61 * time.Second}

func profileMain(args []string) {
	fs := flag.NewFlagSet("profile", flag.ExitOnError)
	out := fs.String("out", "", "trace file")
	manyOut := fs.String("many", "", "trace file for the many-drains family (TraceProfileMany)")
	nDrains := fs.Int("drains", 200, "concurrent drains per profile of the many-drains family")
	nLines := fs.Int("lines", 200, "number of sampled line profiles")
	nRand := fs.Int("random", 0, "number of random rational profiles")
	maxTok := fs.Int("maxtokens", 12000, "skip profiles with more tokens")
	_ = fs.Parse(args)
	coreimport.Import(afero.NewMemMapFs())
	rnd := rand.New(rand.NewSource(vt.Seed()))
	w := vt.Create(*out)
	defer w.Close()

	var specs []profSpec
	// every const profile of the grid
	for _, r := range profRates {
		for _, d := range profDurs {
			specs = append(specs, profSpec{Kind: "const", FromM: r, ToM: r, DurNs: int64(d)})
		}
	}
	// line profiles: all ordered pairs x durations, sampled
	var lines []profSpec
	for _, f := range profRates {
		for _, t := range profRates {
			for _, d := range profDurs {
				lines = append(lines, profSpec{Kind: "line", FromM: f, ToM: t, DurNs: int64(d)})
			}
		}
	}
	rnd.Shuffle(len(lines), func(i, j int) { lines[i], lines[j] = lines[j], lines[i] })
	// the fractional-second ramps are first-class: always present
	specs = append(specs,
		profSpec{Kind: "line", FromM: 0, ToM: 10000, DurNs: int64(1500 * time.Millisecond)},
		profSpec{Kind: "line", FromM: 0, ToM: 10000, DurNs: int64(500 * time.Millisecond)},
		profSpec{Kind: "line", FromM: 10000, ToM: 0, DurNs: int64(2750 * time.Millisecond)},
		profSpec{Kind: "line", FromM: 1000, ToM: 100000, DurNs: int64(999 * time.Millisecond)})
	if *nLines > len(lines) {
		*nLines = len(lines)
	}
	specs = append(specs, lines[:*nLines]...)
	// step profiles
	for _, st := range []int{1, 2, 5} {
		for _, ft := range [][2]int{{0, 5000}, {1000, 10000}, {500, 10500}, {2500, 7000}, {10000, 10000}, {7000, 33300}} {
			for _, d := range []time.Duration{250 * time.Millisecond, time.Second, 1500 * time.Millisecond, 2750 * time.Millisecond} {
				specs = append(specs, profSpec{Kind: "step", FromM: ft[0], ToM: ft[1], Step: st, DurNs: int64(d)})
			}
		}
	}
	// step profiles whose first level is fractional and whose last level is exactly from + k*step: the level is
	// accumulated in float64 (0.12+1+...+1 = 8.120000000000001), the comparison with `to` must not lose the last level
	for _, ft := range [][3]int{{120, 8120, 1}, {30, 2030, 1}, {60, 4060, 2}, {1150, 3150, 1}, {6, 2006, 1}, {128, 10128, 5}, {90, 20090, 10}} {
		specs = append(specs, profSpec{Kind: "step", FromM: ft[0], ToM: ft[1], Step: ft[2], DurNs: int64(10 * time.Second)},
			profSpec{Kind: "step", FromM: ft[0], ToM: ft[1], Step: ft[2], DurNs: int64(1500 * time.Millisecond)})
	}
	// durations that are not a whole number of milliseconds (or microseconds), at rates high enough that the
	// sub-millisecond part is worth whole operations
	for _, d := range []time.Duration{1500 * time.Microsecond, 250999 * time.Microsecond, 1234567 * time.Nanosecond, 7654321 * time.Nanosecond, 1000999999 * time.Nanosecond} {
		for _, r := range []int{333300, 7000000, 10000000, 20000000} {
			specs = append(specs, profSpec{Kind: "const", FromM: r, ToM: r, DurNs: int64(d)})
		}
		specs = append(specs,
			profSpec{Kind: "line", FromM: 0, ToM: 20000000, DurNs: int64(d)},
			profSpec{Kind: "line", FromM: 20000000, ToM: 1000000, DurNs: int64(d)},
			profSpec{Kind: "step", FromM: 1000000, ToM: 3000000, Step: 1000, DurNs: int64(d)},
			profSpec{Kind: "step", FromM: 1500, ToM: 4200, Step: 1, DurNs: int64(d)})
	}
	for _, n := range []int{1, 2, 133, 5000} {
		specs = append(specs, profSpec{Kind: "once", Times: n})
	}
	// random rationals with denominators <= 1000 (milli-rps), durations in whole ms
	for i := 0; i < *nRand; i++ {
		kind := []string{"const", "line", "line", "step"}[rnd.Intn(4)]
		p := profSpec{Kind: kind, FromM: rnd.Intn(200000), ToM: rnd.Intn(200000), DurNs: int64(1+rnd.Intn(20000)) * int64(time.Millisecond)}
		switch kind {
		case "const":
			p.ToM = p.FromM
		case "line":
			if d := p.ToM - p.FromM; d < 10 && d > -10 { // near-flat lines are outside the explored domain
				p.ToM = p.FromM + 1000
			}
		case "step":
			p.FromM, p.ToM = rnd.Intn(20000), rnd.Intn(40000)
			if p.ToM < p.FromM {
				p.FromM, p.ToM = p.ToM, p.FromM
			}
			p.Step = 1 + rnd.Intn(7)
			p.DurNs = int64(1+rnd.Intn(3000)) * int64(time.Millisecond)
		}
		specs = append(specs, p)
	}
	n, skipped := 0, 0
	for i, p := range specs {
		if p.estTokens() > float64(*maxTok) {
			skipped++
			continue
		}
		via := "ctor"
		if i%2 == 1 {
			via = "config"
		}
		w.Emit(runProfile(p, via, *maxTok*2+10))
		n++
	}
	// concurrent drains: step profiles with many levels (every level hand-over is contended), const, line
	conc := []profSpec{
		{Kind: "step", FromM: 1000000, ToM: 1100000, Step: 1, DurNs: int64(3500 * time.Microsecond)},
		{Kind: "step", FromM: 2000000, ToM: 2200000, Step: 2, DurNs: int64(2500 * time.Microsecond)},
		{Kind: "const", FromM: 7000000, ToM: 7000000, DurNs: int64(200 * time.Millisecond)},
		{Kind: "line", FromM: 0, ToM: 20000000, DurNs: int64(300 * time.Millisecond)},
		{Kind: "once", Times: 500},
	}
	for _, p := range conc {
		w.Emit(runProfileConcurrent(p, 8, 40000))
		n++
	}
	if *manyOut != "" {
		mw := vt.Create(*manyOut)
		for _, p := range []profSpec{
			{Kind: "step", FromM: 1000000, ToM: 4000000, Step: 1, DurNs: int64(3500 * time.Microsecond)},
			{Kind: "step", FromM: 500000, ToM: 3000000, Step: 2, DurNs: int64(2 * time.Millisecond)},
			{Kind: "const", FromM: 7000000, ToM: 7000000, DurNs: int64(300 * time.Millisecond)},
			{Kind: "once", Times: 3000},
		} {
			mw.Emit(runProfileMany(p, 8, *nDrains))
		}
		mw.Close()
	}
	fmt.Printf("{\"profiles\":%d,\"skipped\":%d}\n", n, skipped)
}
