package main

// C13, description-level cases: the bundled scenario payloads of the repository
// (components/providers/scenario/testdata/{http,grpc}_payload.{hcl,yaml} + tests/http_scenario/testdata) are
// mutated textually by defect class and taken through the life of a scenario ammo:
//   construct  NewProvider (ReadAmmoConfig, ExtractVariableStorage, decodeAmmo)
//   run        Provider.Run + one Acquire
//   prepare    the preprocessors (+ http: templater) of every step, on the acquired ammo
//   post       http: the postprocessors of every step on a canned response
// (prepare/post mirror ScenarioGun.shootStep without the network; the processors are the real ones).
// `config` cases decode a provider config holding a placeholder through core/config.Decode.

import (
	"bytes"
	"context"
	"fmt"
	"io"
	"net/http"
	"os"
	"path/filepath"
	"regexp"
	"strings"
	"time"

	"github.com/spf13/afero"
	"go.uber.org/zap"

	grpcgun "github.com/yandex/pandora/components/guns/grpc/scenario"
	httpgun "github.com/yandex/pandora/components/guns/http_scenario"
	httpconf "github.com/yandex/pandora/components/providers/http/config"
	"github.com/yandex/pandora/components/providers/scenario"
	scngrpc "github.com/yandex/pandora/components/providers/scenario/grpc"
	scnhttp "github.com/yandex/pandora/components/providers/scenario/http"
	"github.com/yandex/pandora/core"
	coreconfig "github.com/yandex/pandora/core/config"

	"verifharness/internal/vt"
)

func mustRead(rel string) string {
	b, err := os.ReadFile(filepath.Join(mfRepo, rel))
	if err != nil {
		machinery("bundled payload: %v", err)
	}
	return string(b)
}

type mfDoc struct {
	text string
	cls  string
}

// rep replaces old by new (n < 0: all) and insists that the text changed: a renderer that silently renders
// the well-formed payload would make the case meaningless
func (d *mfDoc) rep(old, new string, n int) {
	if !strings.Contains(d.text, old) {
		machinery("class %s: payload does not contain %q", d.cls, old)
	}
	d.text = strings.Replace(d.text, old, new, n)
}

// step tokens of Malformed!AllReqTokens
var mfStepText = map[string]string{
	"R1": "auth_req(1)", "Rdef": "auth_req", "Rsl": "auth_req(1, 20)", "R0": "auth_req(0)", "Rneg": "auth_req(-1)",
	"Rbig": "auth_req(50)", "Rbad": "auth_req(x)", "Rhuge": "auth_req(99999999999999999999)",
	"S": "sleep(100)", "S0": "sleep(0)", "Sneg": "sleep(-1)", "Sempty": "sleep()", "Sbad": "sleep(abc)",
	"Shuge": "sleep(99999999999999999999)",
}

const (
	csvFull    = "user_id,login,pass\n1,1,1\n2,2,2\n3,3,3\n"
	csvEmpty   = "user_id,login,pass\n"
	jsonFilter = "{\n    \"name\": \"Spiral 4v4 NS\"\n}\n"
)

// mfRenderDesc: mutated payload + data files for a scenario target
func mfRenderDesc(c mfCase) (name, text string, files map[string]string) {
	proto, syn, _ := strings.Cut(c.Format, "_")
	hcl := syn == "hcl"
	d := &mfDoc{text: mustRead("components/providers/scenario/testdata/" + proto + "_payload." + syn), cls: c.Cls}
	files = map[string]string{"testdata/users.csv": csvFull, "testdata/filter.json": jsonFilter}
	pick := func(h, y string) string {
		if hcl {
			return h
		}
		return y
	}
	// the mapping line of the first preprocessor, per target
	var mapOld string
	var mapNew func(v string) string
	switch c.Format {
	case "http_hcl":
		mapOld = `user_id = "source.users[${local.next}].user_id"`
		mapNew = func(v string) string { return `user_id = "` + v + `"` }
	case "http_yaml":
		mapOld = `user_id: source.users[next].user_id`
		mapNew = func(v string) string { return `user_id: ` + v }
	case "grpc_hcl":
		mapOld = `user = "source.users[next]"`
		mapNew = func(v string) string { return `user = "` + v + `"` }
	case "grpc_yaml":
		mapOld = `user: source.users[next]`
		mapNew = func(v string) string { return `user: ` + v }
	}
	sfx := "" // the http mapping selects a field of the row, the grpc one the whole row
	if proto == "http" {
		sfx = ".user_id"
	}
	varOld := pick(`header = "yandex"`, `header: yandex`)
	varNew := func(v string) string { return pick(`header = "`+v+`"`, `header: `+v) }
	xpath := func(expr string) {
		if hcl {
			d.rep("request \"order_req\" {\n", "request \"order_req\" {\n  postprocessor \"var/xpath\" {\n    mapping = {\n      v = \""+expr+"\"\n    }\n  }\n", 1)
		} else {
			d.rep("  - name: order_req\n", "  - name: order_req\n    postprocessors:\n      - type: var/xpath\n        mapping:\n          v: '"+expr+"'\n", 1)
		}
	}
	cls := c.Cls
	switch {
	case cls == "reqlist":
		// arg = step tokens; both scenarios get the same list
		steps := []string{}
		for _, t := range c.Arg {
			tok, _ := t.(string)
			txt, ok := mfStepText[tok]
			if !ok {
				machinery("unknown request-list token %v", t)
			}
			steps = append(steps, txt)
		}
		var re *regexp.Regexp
		var list string
		if hcl {
			re = regexp.MustCompile(`requests\s*=\s*\[[^\]]*\]`)
			q := []string{}
			for _, st := range steps {
				q = append(q, `"`+st+`"`)
			}
			list = "requests = [" + strings.Join(q, ", ") + "]"
		} else {
			re = regexp.MustCompile(`(?m)^    requests:\n(      - .*\n)+`)
			if len(steps) == 0 {
				list = "    requests: []\n"
			} else {
				list = "    requests:\n"
				for _, st := range steps {
					list += "      - '" + st + "'\n"
				}
			}
		}
		if len(re.FindAllString(d.text, -1)) != 2 {
			machinery("reqlist: expected two request lists in the %s payload", c.Format)
		}
		d.text = re.ReplaceAllLiteralString(d.text, list)
	case cls == "tfunc":
		// arg = <<function, a, b, where>>
		num := map[string]string{"minint": "-9223372036854775808", "m1": "-1", "z": "0", "p1": "1", "maxint": "9223372036854775807"}
		fn, _ := c.Arg[0].(string)
		a, _ := c.Arg[1].(string)
		b, _ := c.Arg[2].(string)
		where, _ := c.Arg[3].(string)
		call := fn + "(" + num[a]
		if b != "-" {
			call += "," + num[b]
		}
		call += ")"
		if num[a] == "" || (b != "-" && num[b] == "") {
			machinery("tfunc: unknown number token in %v", c.Arg)
		}
		switch where {
		case "var":
			d.rep(varOld, varNew(call), 1)
		case "map":
			d.rep(mapOld, mapNew(call), 1)
		default:
			machinery("tfunc: unknown position %q", where)
		}
	case cls == "index":
		// arg = <<rows, index token, where>>
		rows := vt.Int(c.Arg[0])
		tok, _ := c.Arg[1].(string)
		where, _ := c.Arg[2].(string)
		csv := "user_id,login,pass\n"
		for i := 1; i <= rows; i++ {
			csv += fmt.Sprintf("%d,%d,%d\n", i, i, i)
		}
		files["testdata/users.csv"] = csv
		var idx string
		switch tok {
		case "m2l1":
			idx = fmt.Sprint(-(2*rows + 1))
		case "ml1":
			idx = fmt.Sprint(-(rows + 1))
		case "ml":
			idx = fmt.Sprint(-rows)
		case "m1":
			idx = "-1"
		case "z":
			idx = "0"
		case "l1":
			idx = fmt.Sprint(rows - 1)
		case "l":
			idx = fmt.Sprint(rows)
		case "2l1":
			idx = fmt.Sprint(2*rows + 1)
		case "huge":
			idx = "99999999999999999999"
		case "minint":
			idx = "-9223372036854775808"
		case "maxint":
			idx = "9223372036854775807"
		default:
			machinery("unknown index token %q", tok)
		}
		switch where {
		case "map":
			d.rep(mapOld, mapNew("source.users["+idx+"]"+sfx), 1)
		case "func":
			d.rep(mapOld, mapNew("randString(source.users["+idx+"].user_id)"), 1)
		default:
			machinery("unknown index position %q", where)
		}
	case cls == "d_none":
	case cls == "leading_sleep":
		d.rep(pick(`"auth_req(1)",`, `- auth_req(1)`), pick("\"sleep(50)\",\n    \"auth_req(1)\",", "- sleep(50)\n      - auth_req(1)"), -1)
	case cls == "unknown_request":
		d.rep("list_req(1)", "nosuch_req(1)", -1)
	case cls == "bad_count":
		d.rep("list_req(1)", "list_req(x)", -1)
	case cls == "bad_bracket":
		d.rep("list_req(1)", "list_req(1", -1)
	case cls == "syntax":
		d.text = pick("request \"unclosed\" {\n", "key: [unclosed\n") + d.text
	case cls == "wrongtype":
		d.rep(pick("weight           = 50", "weight: 50"), pick("weight           = \"heavy\"", "weight: heavy"), 1)
	case cls == "unknown_plugin":
		if proto == "http" {
			d.rep(pick(`postprocessor "var/jsonpath"`, `type: var/jsonpath`), pick(`postprocessor "var/nosuch"`, `type: var/nosuch`), 1)
		} else {
			d.rep(pick(`postprocessor "assert/response"`, `type: assert/response`), pick(`postprocessor "assert/nosuch"`, `type: assert/nosuch`), 1)
		}
	case cls == "missing_source":
		delete(files, "testdata/users.csv")
	case cls == "bad_csv":
		files["testdata/users.csv"] = "user_id,login,pass\n1,\"unterminated,1\n2,2,2\n"
	case cls == "bad_json_source":
		files["testdata/filter.json"] = "{\"name\": "
	case cls == "unknown_source":
		d.rep(pick(`"file/json"`, `type: file/json`), pick(`"file/nosuch"`, `type: file/nosuch`), 1)
	case cls == "no_scenarios":
		cut := pick("scenario \"scenario_name\" {", "scenarios:")
		i := strings.Index(d.text, cut)
		if i < 0 {
			machinery("class %s: payload does not contain %q", cls, cut)
		}
		d.text = d.text[:i]
	case cls == "null_source":
		d.rep("variable_sources:\n", "variable_sources:\n  -\n", 1)
	case cls == "null_postproc":
		d.rep("    postprocessors:\n", "    postprocessors:\n      -\n", 1)
	case cls == "null_preproc":
		d.rep("    preprocessors:\n", "    preprocessors:\n      -\n", 1)
	case cls == "empty_plugin":
		if proto == "http" {
			d.rep(pick(`postprocessor "var/jsonpath"`, `type: var/jsonpath`), pick(`postprocessor ""`, `type: ''`), 1)
		} else {
			d.rep(pick(`postprocessor "assert/response"`, `type: assert/response`), pick(`postprocessor ""`, `type: ''`), 1)
		}
	case cls == "bool_key":
		d.rep("  - name: auth_req\n", "  - name: auth_req\n    y: 1\n", 1)
	case cls == "neg_weight":
		d.rep(pick("weight           = 50", "weight: 50"), pick("weight           = -50", "weight: -50"), 1)
	case cls == "huge_weight":
		d.rep(pick("weight           = 50", "weight: 50"), pick("weight           = 4611686018427387904", "weight: 4611686018427387904"), 1)
	case cls == "var_randint_eq":
		d.rep(varOld, varNew("randInt(5,5)"), 1)
	case cls == "var_randint_ovf":
		d.rep(varOld, varNew("randInt(-9223372036854775808,9223372036854775807)"), 1)
	case cls == "var_randint_nan":
		d.rep(varOld, varNew("randInt(a,b)"), 1)
	case cls == "var_randint_3":
		d.rep(varOld, varNew("randInt(1,2,3)"), 1)
	case cls == "var_randstr_neg":
		d.rep(varOld, varNew("randString(-1)"), 1)
	case strings.HasPrefix(cls, "empty_csv_"):
		files["testdata/users.csv"] = csvEmpty
		idx := strings.TrimPrefix(cls, "empty_csv_")
		if proto == "http" {
			d.rep(mapOld, mapNew("source.users["+idx+"].user_id"), 1)
		} else {
			d.rep(mapOld, mapNew("source.users["+idx+"]"), 1)
		}
	case strings.HasPrefix(cls, "empty_json_"):
		files["testdata/filter.json"] = "[]\n"
		d.rep(mapOld, mapNew("source.filter_src["+strings.TrimPrefix(cls, "empty_json_")+"]"), 1)
	case cls == "map_randint_eq":
		d.rep(mapOld, mapNew("randInt(5,5)"), 1)
	case cls == "map_randint_ovf":
		d.rep(mapOld, mapNew("randInt(-9223372036854775808,9223372036854775807)"), 1)
	case cls == "map_randstr_neg":
		d.rep(mapOld, mapNew("randString(-1)"), 1)
	case cls == "map_neg_index":
		d.rep(mapOld, mapNew("source.users[-1]"+sfx), 1)
	case cls == "map_empty_index":
		d.rep(mapOld, mapNew("source.users[]"+sfx), 1)
	case cls == "map_unclosed":
		d.rep(mapOld, mapNew("source.users[0"), 1)
	case cls == "map_huge_index":
		d.rep(mapOld, mapNew("source.users[99999999999999999999]"+sfx), 1)
	case cls == "map_bad_index":
		d.rep(mapOld, mapNew("source.users[abc]"), 1)
	case cls == "xpath_ok":
		xpath("//a")
	case cls == "xpath_number":
		xpath("count(//a)")
	case cls == "xpath_string":
		xpath("string(//a)")
	case cls == "xpath_bool":
		xpath("1 = 1")
	case cls == "xpath_invalid":
		xpath("//a[")
	default:
		if !mfRenderDescSyntax(d, c.Format, cls, files) {
			machinery("no renderer for description class %q", cls)
		}
	}
	return "/scn/payload." + syn, d.text, files
}

type mfStageErr struct {
	stage string
	err   error
}

func mfRunDescCase(c mfCase) mfLine {
	if c.Format == "config" {
		return mfRunConfigCase(c)
	}
	if c.Format == "pool" {
		return mfRunPoolCase(c)
	}
	if c.Format == "cfg" {
		return mfRunCfgCase(c)
	}
	name, text, files := mfRenderDesc(c)
	evs, info := mfDescPipeline(c.Format, name, text, files)
	return mfLine{K: "case", C: &c, Evs: evs, Info: info}
}

// mfDescPipeline takes one scenario description through construct -> run -> prepare -> post and records
// the stages passed and how it ended.
func mfDescPipeline(format, name, text string, files map[string]string) ([]mfEvent, map[string]interface{}) {
	// the plugins were registered with mfFS: rewrite its content for this case
	mfFS.RemoveAll("/scn")
	mfFS.RemoveAll("testdata")
	afero.WriteFile(mfFS, name, []byte(text), 0o644)
	for fn, content := range files {
		afero.WriteFile(mfFS, fn, []byte(content), 0o644)
	}
	proto, _, _ := strings.Cut(format, "_")
	conf := scenario.ProviderConfig{File: name}
	evs := []mfEvent{}
	info := map[string]interface{}{}
	panics := make(chan string, 4)
	var p core.Provider
	var ctorErr error
	safely(panics, "constructor", func() {
		if proto == "http" {
			p, ctorErr = scnhttp.NewProvider(mfFS, conf)
		} else {
			p, ctorErr = scngrpc.NewProvider(mfFS, conf)
		}
	})
	info["ctor_err"] = errStr(ctorErr)
	select {
	case pm := <-panics:
		return append(evs, mfEvent{"Panic", trunc(pm, 200)}), info
	default:
	}
	if ctorErr != nil {
		return append(evs, mfEvent{"End", "rejected"}), info
	}
	evs = append(evs, mfEvent{"Stage", "construct"})
	// run: Run in its own goroutine, ONE Acquire in another.  The scenario provider streams its ammo list
	// for ever (no limit/passes here) until cancelled, so: ammo first -> cancel -> Run must return; Run first ->
	// it ended without handing anything out.  (The scenario provider does not close its sink when Run
	// ends - DESIGN §5 #8, property C08 - so a consumer may stay blocked; that is recorded, not judged here.)
	ctx, cancel := context.WithCancel(context.Background())
	defer cancel()
	type runRes struct {
		err      error
		panicked bool
	}
	runDone := make(chan runRes, 1)
	go func() {
		var err error
		ok := false
		safely(panics, "Run", func() { err = p.Run(ctx, core.ProviderDeps{Log: zap.NewNop(), PoolID: "verif"}); ok = true })
		runDone <- runRes{err, !ok}
	}()
	type acqRes struct {
		a  core.Ammo
		ok bool
	}
	acq := make(chan acqRes, 1)
	go func() {
		safely(panics, "Acquire", func() {
			a, ok := p.Acquire()
			acq <- acqRes{a, ok}
		})
	}()
	var got core.Ammo
	var rr runRes
	select {
	case ar := <-acq:
		if ar.ok {
			got = ar.a
		}
		cancel()
		rr = <-runDone
	case rr = <-runDone:
		select {
		case ar := <-acq:
			if ar.ok {
				got = ar.a
			}
		case <-time.After(300 * time.Millisecond):
			info["acquire_still_blocked_after_run_returned"] = true
		}
	case pm := <-panics:
		return append(evs, mfEvent{"Panic", trunc(pm, 200)}), info
	}
	if rr.err == context.Canceled {
		rr.err = nil
	}
	info["run_err"] = errStr(rr.err)
	if rr.panicked {
		pm := "Run panicked"
		select {
		case pm = <-panics:
		default:
		}
		return append(evs, mfEvent{"Panic", trunc(pm, 200)}), info
	}
	if rr.err != nil || got == nil {
		if rr.err == nil {
			info["run_err"] = "no ammo acquired"
		}
		return append(evs, mfEvent{"End", "rejected"}), info
	}
	evs = append(evs, mfEvent{"Stage", "run"})
	// prepare / post under recover, in this goroutine (the gun would run them on the instance goroutine)
	var se *mfStageErr
	safely(panics, "shootStep", func() {
		if proto == "http" {
			se = mfHTTPSteps(got.(*httpgun.Scenario))
		} else {
			se = mfGRPCSteps(got.(*grpcgun.Scenario))
		}
	})
	select {
	case p := <-panics:
		return append(evs, mfEvent{"Panic", trunc(p, 200)}), info
	default:
	}
	if se != nil {
		info["stage_err"] = se.stage + ": " + errStr(se.err)
		if se.stage == "post" {
			evs = append(evs, mfEvent{"Stage", "prepare"})
		}
		return append(evs, mfEvent{"End", "rejected"}), info
	}
	return append(evs, mfEvent{"Stage", "prepare"}, mfEvent{"Stage", "post"}, mfEvent{"End", "accepted"}), info
}

type mfCanned struct {
	ctype string
	hdr   map[string]string
	body  string
}

var mfResponses = map[string]mfCanned{
	"auth_req":   {"application/json", map[string]string{"Http-Authorization": "auth-token-1"}, `{"auth_key":"0123456789012345678901234567890123456789"}`},
	"list_req":   {"application/json", nil, `{"items":[11,22,33]}`},
	"order_req":  {"text/html", nil, `<html><body><a href="/x">link</a><a>two</a></body></html>`},
	"order_req2": {"text/html", nil, `<html><body><a href="/x">link</a></body></html>`},
}

func mfHTTPSteps(ammo *httpgun.Scenario) *mfStageErr {
	templateVars := map[string]any{"source": ammo.VariableStorage.Variables()}
	requestVars := map[string]any{}
	templateVars["request"] = requestVars
	for _, step := range ammo.Requests {
		stepVars := map[string]any{}
		requestVars[step.Name] = stepVars
		if step.Preprocessor != nil {
			vars, err := step.Preprocessor.Process(templateVars)
			if err != nil {
				return &mfStageErr{"prepare", err}
			}
			stepVars["preprocessor"] = vars
		}
		parts := httpgun.RequestParts{URL: step.URI, Method: step.Method, Body: step.GetBody(), Headers: step.GetHeaders()}
		if err := step.Templater.Apply(&parts, templateVars, ammo.Name, step.Name); err != nil {
			return &mfStageErr{"prepare", err}
		}
		cr, ok := mfResponses[step.Name]
		if !ok {
			cr = mfCanned{"text/plain", nil, "ok"} // a step renamed by a mutation
		}
		resp := &http.Response{StatusCode: 200, Header: http.Header{"Content-Type": {cr.ctype}}, Body: io.NopCloser(strings.NewReader(cr.body))}
		for k, v := range cr.hdr {
			resp.Header.Set(k, v)
		}
		body := bytes.NewReader([]byte(cr.body))
		post := map[string]any{}
		for _, pp := range step.Postprocessors {
			vars, err := pp.Process(resp, body)
			if err != nil {
				return &mfStageErr{"post", err}
			}
			for k, v := range vars {
				post[k] = v
			}
			body.Seek(0, io.SeekStart)
		}
		stepVars["postprocessor"] = post
	}
	return nil
}

var mfGRPCOut = map[string]map[string]any{
	"auth_req":  {"userId": 1, "token": "tok"},
	"list_req":  {"result": []any{map[string]any{"itemId": 7}, map[string]any{"itemId": 8}}},
	"order_req": {},
}

func mfGRPCSteps(ammo *grpcgun.Scenario) *mfStageErr {
	templateVars := map[string]any{"source": ammo.VariableStorage.Variables()}
	requestVars := map[string]any{}
	templateVars["request"] = requestVars
	for i := range ammo.Calls {
		step := &ammo.Calls[i]
		stepVars := map[string]any{}
		requestVars[step.Name] = stepVars
		pre := map[string]any{}
		for _, pp := range step.Preprocessors {
			vars, err := pp.Process(step, templateVars)
			if err != nil {
				return &mfStageErr{"prepare", err}
			}
			for k, v := range vars {
				pre[k] = v
			}
		}
		stepVars["preprocessor"] = pre
		out, ok := mfGRPCOut[step.Name]
		if !ok {
			out = map[string]any{} // a call renamed by a mutation
		}
		stepVars["postprocessor"] = out
	}
	return nil
}

// ---------------------------------------------------------------------------------------------------
// config values with placeholders

func mfRunConfigCase(c mfCase) mfLine {
	os.Setenv("VERIF_C13_FILE", "/ammo.uri")
	os.Setenv("VERIF_C13_INT", "7")
	os.Setenv("VERIF_C13_NOTINT", "seven")
	os.Unsetenv("VERIF_C13_UNSET")
	dir, err := os.MkdirTemp("", "vdrive-c13-prop-")
	if err != nil {
		machinery("%v", err)
	}
	defer os.RemoveAll(dir)
	prop := filepath.Join(dir, "secret.properties")
	os.WriteFile(prop, []byte("file=/ammo.uri\nlimit=7\n"), 0o600)
	m := map[string]interface{}{"decoder": "uri", "file": "${env:VERIF_C13_FILE}", "limit": "${env:VERIF_C13_INT}"}
	switch c.Cls {
	case "propfile":
		// arg = <<lines, req, layout>> (Malformed!PropTokens, PropLayouts)
		lineText := map[string]string{"kv": "key=v1", "kv2": "key=v2", "bare": "key", "blank": "", "comment": "# key=commented",
			"eqonly": "=", "emptyval": "key=", "other": "other=x", "longer": "key2=wrong", "eqval": "key=a=b", "spaced": " key = v3",
			"long": "zlong=" + strings.Repeat("x", 70000)}
		toks, _ := c.Arg[0].([]interface{})
		req, _ := c.Arg[1].(string)
		layout, _ := c.Arg[2].(string)
		lines := []string{}
		for _, t := range toks {
			txt, ok := lineText[fmt.Sprint(t)]
			if !ok {
				machinery("unknown property-file line token %v", t)
			}
			lines = append(lines, txt)
		}
		eol := "\n"
		if layout == "crlf" {
			eol = "\r\n"
		}
		content := strings.Join(lines, eol)
		if len(lines) > 0 && layout != "nofinalnl" {
			content += eol
		}
		switch layout {
		case "lf", "crlf", "nofinalnl":
		case "bom":
			content = "\xef\xbb\xbf" + content
		default:
			machinery("unknown property-file layout %q", layout)
		}
		os.WriteFile(prop, []byte(content), 0o600)
		m["file"] = "${property:" + prop + "#" + req + "}"
	case "prop_dir":
		m["file"] = "${property:" + dir + "#file}"
	case "d_none":
		m["file"] = "${property:" + prop + "#file}"
	case "prop_nokey":
		m["file"] = "${property:" + prop + "}"
	case "prop_nofile":
		m["file"] = "${property:" + dir + "/nosuch.properties#file}"
	case "prop_nosuchkey":
		m["file"] = "${property:" + prop + "#nosuch}"
	case "prop_emptykey":
		m["file"] = "${property:" + prop + "#}"
	case "unknown_tag":
		m["file"] = "${nosuch:thing}"
	case "env_unset":
		m["file"] = "${env:VERIF_C13_UNSET}"
	case "env_badint":
		m["limit"] = "${env:VERIF_C13_NOTINT}"
	default:
		machinery("no renderer for config class %q", c.Cls)
	}
	var conf httpconf.Config
	var derr error
	panics := make(chan string, 1)
	safely(panics, "config.Decode", func() { derr = coreconfig.Decode(m, &conf) })
	evs := []mfEvent{}
	info := map[string]interface{}{"err": errStr(derr), "decoded": fmt.Sprintf("file=%q limit=%d", conf.File, conf.Limit)}
	select {
	case p := <-panics:
		evs = append(evs, mfEvent{"Panic", trunc(p, 200)})
	default:
		if derr != nil {
			evs = append(evs, mfEvent{"End", "rejected"})
		} else {
			if c.Cls == "unknown_tag" && conf.File != "${nosuch:thing}" {
				machinery("unknown placeholder type decoded to %+v", conf)
			}
			if c.Cls == "d_none" && (conf.File != "/ammo.uri" || conf.Limit != 7) {
				machinery("well-formed config decoded to %+v", conf)
			}
			if c.Cls == "propfile" {
				evs = append(evs, mfEvent{"Value", trunc(conf.File, 100)})
			}
			evs = append(evs, mfEvent{"Stage", "construct"}, mfEvent{"End", "accepted"})
		}
	}
	return mfLine{K: "case", C: &c, Evs: evs, Info: info}
}
