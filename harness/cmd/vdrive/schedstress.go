package main

// C02 M1: free-running goroutines draw from real schedule trees (once / const / line / step /
// instance_step / unlimited parts, nested composites, wrapped in coreutil's callbackOnFinish);
// every call and return is recorded with a global sequence number.  TraceSchedStress.tla
// checks the history against the sequential token contract.

import (
	"flag"
	"fmt"
	"math/rand"
	"sort"
	"sync"
	"sync/atomic"
	"time"

	"github.com/yandex/pandora/core"
	"github.com/yandex/pandora/core/coreutil"
	"github.com/yandex/pandora/core/schedule"

	"verifharness/internal/vt"
)

func init() { register("schedstress", schedStressMain) }

type ssLeaf struct {
	Kind string  `json:"kind"`
	Dur  []int   `json:"dur"`
	Toks [][]int `json:"toks"`
	Desc string  `json:"desc"`
}

type ssNode struct {
	mk    func() core.Schedule // fresh instance
	unl   bool
	dur   time.Duration
	kids  []*ssNode
	desc  string
	ntoks int
}

func ssGenLeaf(r *rand.Rand, allowUnl bool, allowEmpty bool) *ssNode {
	ms := func(a, b int) time.Duration { return time.Duration(a+r.Intn(b-a+1)) * time.Millisecond }
	for {
		switch k := r.Intn(7); k {
		case 0:
			n := int64(r.Intn(6))
			if n == 0 && !allowEmpty {
				continue
			}
			return &ssNode{mk: func() core.Schedule { return schedule.NewOnce(n) }, desc: fmt.Sprintf("once(%d)", n)}
		case 1:
			ops, d := float64(100+r.Intn(2000)), ms(2, 20)
			return &ssNode{mk: func() core.Schedule { return schedule.NewConst(ops, d) }, desc: fmt.Sprintf("const(%v,%v)", ops, d)}
		case 2:
			f, t, d := float64(r.Intn(2000)), float64(r.Intn(2000)), ms(2, 20)
			return &ssNode{mk: func() core.Schedule { return schedule.NewLine(f, t, d) }, desc: fmt.Sprintf("line(%v,%v,%v)", f, t, d)}
		case 3:
			f := float64(100 + r.Intn(500))
			t, st, d := f+float64(r.Intn(1500)), int64(200+r.Intn(600)), ms(2, 8)
			return &ssNode{mk: func() core.Schedule { return schedule.NewStep(f, t, st, d) }, desc: fmt.Sprintf("step(%v,%v,%d,%v)", f, t, st, d)}
		case 4:
			f := int64(r.Intn(3))
			if f == 0 && !allowEmpty {
				f = 1
			}
			t, st, d := f+int64(r.Intn(5)), int64(1+r.Intn(2)), ms(1, 5)
			return &ssNode{mk: func() core.Schedule { return schedule.NewInstanceStep(f, t, st, d) }, desc: fmt.Sprintf("instance_step(%d,%d,%d,%v)", f, t, st, d)}
		case 5:
			if !allowEmpty {
				continue
			}
			d := ms(1, 5)
			return &ssNode{mk: func() core.Schedule { return schedule.NewConst(0, d) }, desc: fmt.Sprintf("const(0,%v)", d)}
		default:
			if !allowUnl {
				continue
			}
			d := ms(4, 12)
			return &ssNode{mk: func() core.Schedule { return schedule.NewUnlimited(d) }, unl: true, dur: d, desc: fmt.Sprintf("unlimited(%v)", d)}
		}
	}
}

func ssGen(r *rand.Rand, depth int, allowUnl bool, top bool) *ssNode {
	if depth == 0 || (!top && r.Intn(3) > 0) {
		return ssGenLeaf(r, allowUnl, true)
	}
	n := &ssNode{}
	nk := 2 + r.Intn(3)
	for i := 0; i < nk; i++ {
		var k *ssNode
		if i == 0 && !top && r.Intn(2) == 0 {
			// half of the nested composites begin with a leaf that may be empty (NewComposite probes Left() of a
			// nested composite: an empty first part followed by a part of unknown length used to start it)
			k = ssGenLeaf(r, allowUnl, true)
		} else {
			k = ssGen(r, depth-1, allowUnl, false)
		}
		n.kids = append(n.kids, k)
	}
	return n
}

func (n *ssNode) build() core.Schedule {
	if n.kids == nil {
		return n.mk()
	}
	var ks []core.Schedule
	for _, k := range n.kids {
		ks = append(ks, k.build())
	}
	return schedule.NewComposite(ks...)
}

func (n *ssNode) leaves(out *[]ssLeaf) {
	if n.kids != nil {
		for _, k := range n.kids {
			k.leaves(out)
		}
		return
	}
	if n.unl {
		*out = append(*out, ssLeaf{Kind: "unl", Dur: vt.Limbs(int64(n.dur)), Toks: [][]int{}, Desc: n.desc})
		return
	}
	// token offsets and duration of a timed leaf: a fresh standalone copy drained sequentially
	// (what a single profile hands out is C01's subject)
	s := n.mk()
	t0 := time.Unix(1700000000, 0)
	s.Start(t0)
	lf := ssLeaf{Kind: "doat", Toks: [][]int{}, Desc: n.desc}
	for {
		t, ok := s.Next()
		if !ok {
			lf.Dur = vt.Limbs(int64(t.Sub(t0)))
			break
		}
		lf.Toks = append(lf.Toks, vt.Limbs(int64(t.Sub(t0))))
	}
	n.ntoks = len(lf.Toks)
	*out = append(*out, lf)
}

func (n *ssNode) String() string {
	if n.kids == nil {
		return n.desc
	}
	s := "["
	for i, k := range n.kids {
		if i > 0 {
			s += ", "
		}
		s += k.String()
	}
	return s + "]"
}

type ssEv struct {
	seq  int64
	Ev   string `json:"ev"`
	Run  int    `json:"run"`
	G    int    `json:"g"`
	Op   string `json:"op"`
	Wall []int  `json:"wall"`
	T    []int  `json:"t"`
	Ok   bool   `json:"ok"`
	Neg  bool   `json:"neg"`
	Left int    `json:"left"`
}

type ssTreeEv struct {
	Ev     string   `json:"ev"`
	Run    int      `json:"run"`
	G      int      `json:"g"`
	Desc   string   `json:"desc"`
	Leaves []ssLeaf `json:"leaves"`
}

func schedStressMain(args []string) {
	fs := flag.NewFlagSet("schedstress", flag.ExitOnError)
	out := fs.String("out", "", "trace")
	runs := fs.Int("runs", 40, "runs")
	_ = fs.Parse(args)
	rnd := rand.New(rand.NewSource(vt.Seed()*7919 + 13))
	w := vt.Create(*out)
	defer w.Close()
	total := 0
	for run := 0; run < *runs; run++ {
		allowUnl := run%2 == 0
		var tree *ssNode
		var leaves []ssLeaf
		for {
			tree = ssGen(rnd, 2, allowUnl, true)
			leaves = nil
			tree.leaves(&leaves)
			nt := 0
			for _, l := range leaves {
				nt += len(l.Toks)
			}
			if nt <= 250 {
				break
			}
		}
		G := 3 + rnd.Intn(8)
		w.Emit(ssTreeEv{Ev: "tree", Run: run, G: G, Desc: tree.String(), Leaves: leaves})
		var seq int64
		var evmu sync.Mutex
		var evs []ssEv
		logEv := func(e ssEv) {
			e.seq = atomic.AddInt64(&seq, 1)
			e.Run = run
			evmu.Lock()
			evs = append(evs, e)
			evmu.Unlock()
		}
		var wrapped core.Schedule
		t0 := time.Now().Add(time.Millisecond)
		setupPanic := func() (p interface{}) {
			defer func() { p = recover() }()
			root := tree.build()
			wrapped = coreutil.NewCallbackOnFinishSchedule(root, func() { logEv(ssEv{Ev: "onfinish", Wall: []int{}, T: []int{}}) })
			wrapped.Start(t0)
			return nil
		}()
		if setupPanic != nil { // construction or Start panicked: no action of the specification, the trace is rejected
			w.Emit(ssEv{Ev: "panic", Run: run, G: -1, Op: fmt.Sprint(setupPanic), Wall: []int{}, T: []int{}})
			w.Emit(ssEv{Ev: "end", Run: run, Wall: []int{}, T: []int{}})
			continue
		}
		rel := func(t time.Time) ([]int, bool) {
			d := t.Sub(t0)
			if d < 0 {
				return vt.Limbs(int64(-d)), true
			}
			return vt.Limbs(int64(d)), false
		}
		var wg sync.WaitGroup
		panicked := make(chan struct{}, 1)
		for g := 0; g < G; g++ {
			g := g
			gr := rand.New(rand.NewSource(rnd.Int63()))
			wg.Add(1)
			go func() {
				defer wg.Done()
				defer func() {
					if r := recover(); r != nil { // no action of the specification: the trace is rejected
						logEv(ssEv{Ev: "panic", G: g, Op: fmt.Sprint(r), Wall: []int{}, T: []int{}})
						select {
						case panicked <- struct{}{}:
						default:
						}
					}
				}()
				ends := 0
				for calls := 0; ends < 3 && calls < 4000; calls++ {
					if gr.Intn(4) == 0 {
						time.Sleep(time.Duration(gr.Intn(300)) * time.Microsecond)
					}
					wl, wneg := rel(time.Now())
					if wneg {
						wl = []int{} // before the start instant: 0
					}
					if gr.Intn(10) < 3 {
						logEv(ssEv{Ev: "call", G: g, Op: "L", Wall: wl, T: []int{}})
						l := wrapped.Left()
						logEv(ssEv{Ev: "ret", G: g, Op: "L", Left: vt.Small(int64(l)), Wall: []int{}, T: []int{}})
					} else {
						logEv(ssEv{Ev: "call", G: g, Op: "N", Wall: wl, T: []int{}})
						t, ok := wrapped.Next()
						tl, neg := rel(t)
						logEv(ssEv{Ev: "ret", G: g, Op: "N", T: tl, Ok: ok, Neg: neg, Wall: []int{}})
						if !ok {
							ends++
						}
					}
				}
				// after exhaustion: half of the goroutines keep polling Next() (as waiting instances do), the others
				// keep reading Left().  Consecutive identical observations are recorded once (first of a run of equal
				// results); every observation that differs from the previous one is recorded with its true call/return
				// positions (the sequence number of the call is reserved before the call is made).
				if ends < 3 {
					return
				}
				reserve := func() int64 { return atomic.AddInt64(&seq, 1) }
				put := func(sq int64, e ssEv) {
					e.seq, e.Run = sq, run
					evmu.Lock()
					evs = append(evs, e)
					evmu.Unlock()
				}
				if g%2 == 0 {
					var lastT time.Time
					for i := 0; i < 6000; i++ {
						sq := reserve()
						t, ok := wrapped.Next()
						if i == 0 || ok || !t.Equal(lastT) {
							tl, neg := rel(t)
							put(sq, ssEv{Ev: "call", G: g, Op: "N", Wall: []int{}, T: []int{}})
							put(reserve(), ssEv{Ev: "ret", G: g, Op: "N", T: tl, Ok: ok, Neg: neg, Wall: []int{}})
						}
						lastT = t
					}
				} else {
					lastL := 0
					for i := 0; i < 6000; i++ {
						wl, wneg := rel(time.Now())
						if wneg {
							wl = []int{}
						}
						sq := reserve()
						l := wrapped.Left()
						if i == 0 || l != lastL {
							put(sq, ssEv{Ev: "call", G: g, Op: "L", Wall: wl, T: []int{}})
							put(reserve(), ssEv{Ev: "ret", G: g, Op: "L", Left: vt.Small(int64(l)), Wall: []int{}, T: []int{}})
						}
						lastL = l
					}
				}
			}()
		}
		allDone := make(chan struct{})
		go func() { wg.Wait(); close(allDone) }()
		select {
		case <-allDone:
		case <-panicked:
			// a panic inside the schedule may have left its lock held: the other goroutines of this run can block
			// for ever; give them a moment, then abandon them (the run is rejected anyway)
			select {
			case <-allDone:
			case <-time.After(300 * time.Millisecond):
			}
		}
		evmu.Lock()
		sort.Slice(evs, func(i, j int) bool { return evs[i].seq < evs[j].seq })
		for _, e := range evs {
			w.Emit(e)
		}
		w.Emit(ssEv{Ev: "end", Run: run, Wall: []int{}, T: []int{}})
		total += len(evs)
		evs = nil
		evmu.Unlock()
	}
	fmt.Printf("{\"runs\":%d,\"events\":%d}\n", *runs, total)
}
