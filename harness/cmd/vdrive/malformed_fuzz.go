package main

// C13, M1 (byte level): seeded mutation of a VALID file per format (bit flips, truncation, splice).  The
// specification contributes only the outcome alphabet {ok, error} and the prefix rule, so the line records
//   intact = number of entries that lie wholly before the first mutated byte,
//   same   = length of the common prefix of the deliveries of the mutated and of the unmutated file
// (projection equality, no judgement) and res; TraceMalformed.tla checks res \in {ok,error} and same >= intact.

import (
	"math/rand"
	"os"
	"strings"
	"sync"
)

func mfFuzzTargets() [][2]string {
	return [][2]string{{"uri", "stream"}, {"uripost", "stream"}, {"raw", "stream"}, {"jsonline", "stream"},
		{"jsonarray", "stream"}, {"grpcjson", "stream"}, {"grpcjson", "continue"}, {"uripost", "preload"}, {"raw", "preload"},
		// scenario descriptions (bundled payloads): whole-file inputs, outcome alphabet only
		{"http_hcl", "preload"}, {"http_yaml", "preload"}, {"grpc_hcl", "preload"}, {"grpc_yaml", "preload"}}
}

type mfValid struct {
	data []byte
	ends []int // end offset (exclusive) of entry i
	ref  []string
}

var (
	mfValidMu    sync.Mutex
	mfValidCache = map[string]*mfValid{}
)

func mfValidFile(format, mode string) *mfValid {
	mfValidMu.Lock()
	defer mfValidMu.Unlock()
	key := format + "/" + mode
	if v, ok := mfValidCache[key]; ok {
		return v
	}
	v := &mfValid{}
	var sb strings.Builder
	if format == "uri" || format == "uripost" {
		sb.WriteString("[X-Common: c]\n")
	}
	if format == "jsonarray" {
		sb.WriteString("[")
	}
	ids := mfIDs("e", 6)
	for i, id := range ids {
		s := mfWellFormed(format, id).render(format)
		switch format {
		case "jsonline":
			s += "\n"
		case "jsonarray":
			if i < len(ids)-1 {
				s += ",\n"
			}
		}
		sb.WriteString(s)
		v.ends = append(v.ends, sb.Len())
	}
	if format == "jsonarray" {
		sb.WriteString("]\n")
	}
	v.data = []byte(sb.String())
	r := mfRunBytes(format, mode, v.data)
	if len(r.panics) > 0 || r.ctorErr != nil || r.runErr != nil || len(r.deliveries) != len(ids) {
		machinery("reference run of the valid %s file failed: %+v", format, r)
	}
	for _, d := range r.deliveries {
		v.ref = append(v.ref, d.Raw)
	}
	mfValidCache[key] = v
	return v
}

func mfRunBytes(format, mode string, data []byte) mfRunResult {
	if format == "grpcjson" {
		return mfRunProvider(mfGRPCProvider(mode, data), mfProjectGRPC, 0)
	}
	return mfRunProvider(mfHTTPProvider(format, mode, data), mfProjectHTTP, 0)
}

func mfMutate(rnd *rand.Rand, orig []byte) (data []byte, first int, opName string) {
	data = append([]byte{}, orig...)
	first = len(data)
	op := rnd.Intn(4)
	switch op {
	case 0, 1: // bit flips
		opName = "bitflip"
		n := 1 + rnd.Intn(3)
		for k := 0; k < n; k++ {
			o := rnd.Intn(len(data))
			data[o] ^= 1 << uint(rnd.Intn(8))
			if o < first {
				first = o
			}
		}
	case 2:
		opName = "truncate"
		first = rnd.Intn(len(data))
		data = data[:first]
	case 3:
		opName = "splice"
		a := rnd.Intn(len(data))
		b := a + 1 + rnd.Intn(40)
		if b > len(data) {
			b = len(data)
		}
		first = rnd.Intn(len(data))
		ins := append([]byte{}, data[a:b]...)
		data = append(append(append([]byte{}, data[:first]...), ins...), data[first:]...)
	}
	return
}

func mfRunFuzz(j mfJob) mfLine {
	rnd := rand.New(rand.NewSource(j.Seed*7919 + int64(len(j.Fmt))*131 + int64(len(j.Mode))))
	if strings.Contains(j.Fmt, "_") {
		return mfRunDescFuzz(j, rnd)
	}
	v := mfValidFile(j.Fmt, j.Mode)
	data, first, opName := mfMutate(rnd, v.data)
	intact := 0
	for _, e := range v.ends {
		if e <= first {
			intact++
		}
	}
	r := mfRunBytes(j.Fmt, j.Mode, data)
	same := 0
	for same < len(r.deliveries) && same < len(v.ref) && r.deliveries[same].Raw == v.ref[same] {
		same++
	}
	res := "ok"
	if len(r.panics) > 0 {
		res = "panic"
	} else if r.ctorErr != nil || r.runErr != nil {
		res = "error"
	}
	info := map[string]interface{}{"op": opName, "first": first, "delivered": len(r.deliveries),
		"ctor_err": errStr(r.ctorErr), "run_err": errStr(r.runErr)}
	if len(r.panics) > 0 {
		info["panic"] = trunc(strings.Join(r.panics, " | "), 300)
	}
	if res == "panic" || same < intact {
		info["file"] = trunc(string(data), 1500)
	}
	return mfLine{K: "fuzz", Format: j.Fmt, Mode: j.Mode, Seed: j.Seed, Intact: intact, Same: same, Res: res, Evs: []mfEvent{}, Info: info}
}

// byte-level mutation of a bundled scenario payload: construct -> run -> prepare -> post; only the outcome
// alphabet applies (a description is read as a whole)
func mfRunDescFuzz(j mfJob, rnd *rand.Rand) mfLine {
	name, text, files := mfRenderDesc(mfCase{Kind: "desc", Format: j.Fmt, Cls: "d_none"})
	data, first, opName := mfMutate(rnd, []byte(text))
	if dump := os.Getenv("VERIF_C13_DUMP"); dump != "" {
		os.WriteFile(dump, data, 0o644) // debugging aid: the input of a job that never returns
	}
	evs, info := mfDescPipeline(j.Fmt, name, string(data), files)
	res := "ok"
	last := evs[len(evs)-1]
	switch {
	case last.Ev == "Panic":
		res = "panic"
		info["panic"] = last.Arg
		info["file"] = trunc(string(data), 6000)
	case last.Ev == "End" && last.Arg == "rejected":
		res = "error"
	}
	info["op"], info["first"] = opName, first
	return mfLine{K: "fuzz", Format: j.Fmt, Mode: j.Mode, Seed: j.Seed, Res: res, Evs: []mfEvent{}, Info: info}
}
