package main

// Profile trees (spec/ProfileTree.tla): the abstract description of a composed load profile and its RENDERERS into the
// real constructors, a config map (what viper hands to config.Decode) and YAML text (parsed by viper like cli.readConfig
// does).  Shared by the C01 (tree profiles drained) and C02 (Left() bookkeeping of huge profiles) drivers.
// Nothing here computes an expected value: counts and instants are decided by TLC from the same description.

import (
	"fmt"
	"strings"
	"time"

	"github.com/spf13/viper"
	"github.com/yandex/pandora/core"
	"github.com/yandex/pandora/core/config"
	"github.com/yandex/pandora/core/schedule"

	"verifharness/internal/vt"
)

type ptNode struct {
	K     string   `json:"k"` // once | const | line | step | istep | unl | list
	FromM int      `json:"from_m"`
	ToM   int      `json:"to_m"`
	Step  int      `json:"step"`
	Times []int    `json:"times"`
	Dur   []int    `json:"dur"`
	Kids  []ptNode `json:"kids"`

	times int64
	dur   time.Duration
	// explicit marks a list rendered as {type: composite, nested: [...]} instead of a bare YAML list
	explicit bool
}

func ptOnce(n int64) ptNode {
	return ptNode{K: "once", Times: vt.Limbs(n), Dur: []int{}, Kids: []ptNode{}, times: n}
}
func ptConst(opsM int, d time.Duration) ptNode {
	return ptNode{K: "const", FromM: opsM, ToM: opsM, Times: []int{}, Dur: vt.Limbs(int64(d)), Kids: []ptNode{}, dur: d}
}
func ptLine(fromM, toM int, d time.Duration) ptNode {
	return ptNode{K: "line", FromM: fromM, ToM: toM, Times: []int{}, Dur: vt.Limbs(int64(d)), Kids: []ptNode{}, dur: d}
}
func ptStep(fromM, toM, step int, d time.Duration) ptNode {
	return ptNode{K: "step", FromM: fromM, ToM: toM, Step: step, Times: []int{}, Dur: vt.Limbs(int64(d)), Kids: []ptNode{}, dur: d}
}
func ptIStep(from, to, step int, d time.Duration) ptNode {
	return ptNode{K: "istep", FromM: from, ToM: to, Step: step, Times: []int{}, Dur: vt.Limbs(int64(d)), Kids: []ptNode{}, dur: d}
}
func ptUnl(d time.Duration) ptNode {
	return ptNode{K: "unl", Times: []int{}, Dur: vt.Limbs(int64(d)), Kids: []ptNode{}, dur: d}
}
func ptList(kids ...ptNode) ptNode {
	if kids == nil {
		kids = []ptNode{} // never JSON null
	}
	return ptNode{K: "list", Times: []int{}, Dur: []int{}, Kids: kids}
}
func ptComposite(kids ...ptNode) ptNode {
	n := ptList(kids...)
	n.explicit = true
	return n
}

func (n ptNode) hasUnl() bool {
	if n.K == "unl" {
		return true
	}
	for _, k := range n.Kids {
		if k.hasUnl() {
			return true
		}
	}
	return false
}

// configurable: validation rejects once(0) (`times` min=1); such trees exist only through the constructors
// (NewInstanceStep(0, ...), NewStep over no level, NewComposite()).
func (n ptNode) configurable() bool {
	if n.K == "once" && n.times == 0 {
		return false
	}
	for _, k := range n.Kids {
		if !k.configurable() {
			return false
		}
	}
	return true
}

// shortest unlimited part of the tree (0 if none)
func (n ptNode) minUnl() time.Duration {
	m := time.Duration(0)
	if n.K == "unl" {
		m = n.dur
	}
	for _, k := range n.Kids {
		if d := k.minUnl(); d > 0 && (m == 0 || d < m) {
			m = d
		}
	}
	return m
}

func (n ptNode) describe() string {
	switch n.K {
	case "once":
		return fmt.Sprintf("once(%d)", n.times)
	case "const":
		return fmt.Sprintf("const(%g,%s)", float64(n.FromM)/1000, n.dur)
	case "line":
		return fmt.Sprintf("line(%g,%g,%s)", float64(n.FromM)/1000, float64(n.ToM)/1000, n.dur)
	case "step":
		return fmt.Sprintf("step(%g,%g,%d,%s)", float64(n.FromM)/1000, float64(n.ToM)/1000, n.Step, n.dur)
	case "istep":
		return fmt.Sprintf("instance_step(%d,%d,%d,%s)", n.FromM, n.ToM, n.Step, n.dur)
	case "unl":
		return fmt.Sprintf("unlimited(%s)", n.dur)
	}
	var ks []string
	for _, k := range n.Kids {
		ks = append(ks, k.describe())
	}
	return "[" + strings.Join(ks, ", ") + "]"
}

// ---- renderer 1: the real constructors

func (n ptNode) ctor() core.Schedule {
	switch n.K {
	case "once":
		return schedule.NewOnce(n.times)
	case "const":
		return schedule.NewConst(float64(n.FromM)/1000, n.dur)
	case "line":
		return schedule.NewLine(float64(n.FromM)/1000, float64(n.ToM)/1000, n.dur)
	case "step":
		return schedule.NewStep(float64(n.FromM)/1000, float64(n.ToM)/1000, int64(n.Step), n.dur)
	case "istep":
		return schedule.NewInstanceStep(int64(n.FromM), int64(n.ToM), int64(n.Step), n.dur)
	case "unl":
		return schedule.NewUnlimited(n.dur)
	case "list":
		var ks []core.Schedule
		for _, k := range n.Kids {
			ks = append(ks, k.ctor())
		}
		return schedule.NewComposite(ks...)
	}
	panic("ptNode.ctor: kind " + n.K)
}

// ---- renderer 2: the value viper would hand to config.Decode (map[string]interface{} / []interface{})

func (n ptNode) confValue() interface{} {
	switch n.K {
	case "once":
		return map[string]interface{}{"type": "once", "times": n.times}
	case "const":
		return map[string]interface{}{"type": "const", "ops": float64(n.FromM) / 1000, "duration": n.dur.String()}
	case "line":
		return map[string]interface{}{"type": "line", "from": float64(n.FromM) / 1000, "to": float64(n.ToM) / 1000, "duration": n.dur.String()}
	case "step":
		return map[string]interface{}{"type": "step", "from": float64(n.FromM) / 1000, "to": float64(n.ToM) / 1000, "step": n.Step, "duration": n.dur.String()}
	case "istep":
		return map[string]interface{}{"type": "instance_step", "from": n.FromM, "to": n.ToM, "step": n.Step, "stepduration": n.dur.String()}
	case "unl":
		return map[string]interface{}{"type": "unlimited", "duration": n.dur.String()}
	case "list":
		ks := []interface{}{}
		for _, k := range n.Kids {
			ks = append(ks, k.confValue())
		}
		if n.explicit {
			return map[string]interface{}{"type": "composite", "nested": ks}
		}
		return ks
	}
	panic("ptNode.confValue: kind " + n.K)
}

// ---- renderer 3: YAML flow text

func ptRate(m int) string {
	if m%1000 == 0 {
		return fmt.Sprintf("%d", m/1000)
	}
	return strings.TrimRight(fmt.Sprintf("%d.%03d", m/1000, m%1000), "0")
}

func (n ptNode) yaml() string {
	switch n.K {
	case "once":
		return fmt.Sprintf("{type: once, times: %d}", n.times)
	case "const":
		return fmt.Sprintf("{type: const, ops: %s, duration: %s}", ptRate(n.FromM), n.dur)
	case "line":
		return fmt.Sprintf("{type: line, from: %s, to: %s, duration: %s}", ptRate(n.FromM), ptRate(n.ToM), n.dur)
	case "step":
		return fmt.Sprintf("{type: step, from: %s, to: %s, step: %d, duration: %s}", ptRate(n.FromM), ptRate(n.ToM), n.Step, n.dur)
	case "istep":
		return fmt.Sprintf("{type: instance_step, from: %d, to: %d, step: %d, stepduration: %s}", n.FromM, n.ToM, n.Step, n.dur)
	case "unl":
		return fmt.Sprintf("{type: unlimited, duration: %s}", n.dur)
	case "list":
		var ks []string
		for _, k := range n.Kids {
			ks = append(ks, k.yaml())
		}
		if n.explicit {
			return "{type: composite, nested: [" + strings.Join(ks, ", ") + "]}"
		}
		return "[" + strings.Join(ks, ", ") + "]"
	}
	panic("ptNode.yaml: kind " + n.K)
}

type ptHolder struct {
	Rps core.Schedule `config:"rps" validate:"required"`
}

// build renders the tree through the chosen path and returns the real schedule.
//   ctor   the constructors of core/schedule
//   config config.DecodeAndValidate of the Go value viper would produce
//   yaml   YAML text -> viper (as cli.readConfig) -> AllSettings -> config.DecodeAndValidate
func (n ptNode) build(via string) (s core.Schedule, err error) {
	defer func() {
		if r := recover(); r != nil {
			err = fmt.Errorf("panic while building: %v", r)
		}
	}()
	switch via {
	case "ctor":
		return n.ctor(), nil
	case "config":
		var h ptHolder
		err = config.DecodeAndValidate(map[string]interface{}{"rps": n.confValue()}, &h)
		return h.Rps, err
	case "yaml":
		v := viper.New()
		v.SetConfigType("yaml")
		if err = v.ReadConfig(strings.NewReader("rps: " + n.yaml() + "\n")); err != nil {
			return nil, err
		}
		var h ptHolder
		err = config.DecodeAndValidate(v.AllSettings(), &h)
		return h.Rps, err
	}
	panic("ptNode.build: via " + via)
}
