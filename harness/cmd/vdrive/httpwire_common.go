// Shared plumbing of the C09 / C10 drivers: real providers and guns built through the REGISTERED
// factories (core/import + components/phttp/import + components/grpc/import, exactly what main.go
// imports) by config decoding; a recording aggregator; a recording gun wrapper.
package main

import (
	"context"
	"errors"
	"fmt"
	"strconv"
	"strings"
	"sync"
	"time"

	"github.com/spf13/afero"
	grpcimport "github.com/yandex/pandora/components/grpc/import"
	phttpimport "github.com/yandex/pandora/components/phttp/import"
	"github.com/yandex/pandora/core"
	"github.com/yandex/pandora/core/aggregator/netsample"
	"github.com/yandex/pandora/core/config"
	coreimport "github.com/yandex/pandora/core/import"
	"github.com/yandex/pandora/core/warmup"
	"go.uber.org/zap"
)

var hwImportOnce sync.Once
var hwFs afero.Fs

// hwImport registers the stock components over an in-memory file system (ammo files live there).
func hwImport() afero.Fs {
	hwImportOnce.Do(func() {
		hwFs = afero.NewMemMapFs()
		coreimport.Import(hwFs)
		phttpimport.Import(hwFs)
		grpcimport.Import(hwFs)
	})
	return hwFs
}

// hwShape converts a viper-shaped map (map[string]interface{}) into the yaml.v2 shape
// (nested map[interface{}]interface{}) when yamlShape is set: both shapes reach config decoding in
// real life (CLI vs. yaml-unmarshalled maps).
func hwShape(m map[string]interface{}, yamlShape bool) interface{} {
	if !yamlShape {
		return m
	}
	out := map[interface{}]interface{}{}
	for k, v := range m {
		if mm, ok := v.(map[string]interface{}); ok {
			out[k] = hwShape(mm, true)
		} else {
			out[k] = v
		}
	}
	return out
}

// hwDecodeProvider builds a provider from its config map through the plugin registry.
func hwDecodeProvider(m map[string]interface{}, yamlShape bool) (core.Provider, error) {
	var holder struct {
		Ammo core.Provider `config:"ammo" validate:"required"`
	}
	err := config.DecodeAndValidate(map[string]interface{}{"ammo": hwShape(m, yamlShape)}, &holder)
	return holder.Ammo, err
}

// hwPatient widens the client-side time limits that are NOT the subject of a case, so that a machine
// under heavy load cannot turn an exchange into a spurious failure (loopback only; nothing waits for them).
func hwPatient(m map[string]interface{}) {
	switch m["type"] {
	case "http", "http2", "http/scenario", "connect":
		if _, ok := m["tls-handshake-timeout"]; !ok {
			m["tls-handshake-timeout"] = "120s"
		}
		if _, ok := m["dial"]; !ok {
			m["dial"] = map[string]interface{}{"timeout": "120s"}
		}
	case "grpc", "grpc/scenario":
		if _, ok := m["timeout"]; !ok {
			m["timeout"] = "300s"
		}
		if _, ok := m["dial_options"]; !ok {
			m["dial_options"] = map[string]interface{}{"timeout": "120s"}
		}
	}
}

// hwDecodeGunFactory builds the per-instance gun factory from the gun's config map.
func hwDecodeGunFactory(m map[string]interface{}, yamlShape bool) (func() (core.Gun, error), error) {
	hwPatient(m)
	var holder struct {
		NewGun func() (core.Gun, error) `config:"gun" validate:"required"`
	}
	err := config.DecodeAndValidate(map[string]interface{}{"gun": hwShape(m, yamlShape)}, &holder)
	return holder.NewGun, err
}

// hwSample is what the aggregator mock logs of one reported sample.
type hwSample struct {
	Seq   int    `json:"seq"`
	Inst  int    `json:"inst"`
	Tag   string `json:"tag"`
	ID    int    `json:"id"`
	Proto int    `json:"proto"`
	Net   int    `json:"net"`
	Err   string `json:"err,omitempty"`
}

// hwAgg is the reporting aggregator mock (core.Aggregator); it logs (tag, id, proto, net) of every sample.
type hwAgg struct {
	mu      sync.Mutex
	seq     *hwSeq
	inst    int
	samples []hwSample
	peeked  int
	onRep   func(s hwSample)
}

type hwSeq struct {
	mu sync.Mutex
	n  int
}

func (s *hwSeq) next() int { s.mu.Lock(); defer s.mu.Unlock(); s.n++; return s.n }

func (a *hwAgg) Run(ctx context.Context, _ core.AggregatorDeps) error { <-ctx.Done(); return nil }

func (a *hwAgg) Report(s core.Sample) {
	ns, ok := s.(*netsample.Sample)
	if !ok {
		panic(fmt.Sprintf("hwAgg: unexpected sample type %T", s))
	}
	rec := hwSample{Inst: a.inst, Tag: ns.Tags(), Proto: ns.ProtoCode(), Net: hwNetCode(ns)}
	if ns.ID() >= 1<<31 {
		panic("hwAgg: id does not fit a TLC integer")
	}
	rec.ID = int(ns.ID())
	if ns.Err() != nil {
		rec.Err = ns.Err().Error()
	}
	a.mu.Lock()
	if a.seq != nil {
		rec.Seq = a.seq.next()
	}
	a.samples = append(a.samples, rec)
	cb := a.onRep
	a.mu.Unlock()
	if cb != nil {
		cb(rec)
	}
}

// peekNew returns the samples reported since the last peekNew without removing them.
func (a *hwAgg) peekNew() []hwSample {
	a.mu.Lock()
	defer a.mu.Unlock()
	out := a.samples[a.peeked:]
	a.peeked = len(a.samples)
	return out
}

func (a *hwAgg) drain() []hwSample {
	a.mu.Lock()
	defer a.mu.Unlock()
	out := a.samples
	a.samples = nil
	a.peeked = 0
	return out
}

// hwNetCode reads the net code (errno field) of a sample the way the phout line shows it: the phout
// encoder is the only exported view of that field ("<ts>\t<tags>#<id>\t...\t<net>\t<proto>").
func hwNetCode(s *netsample.Sample) int {
	f := strings.Split(s.String(), "\t")
	if len(f) < 12 {
		panic("hwNetCode: unexpected phout line " + s.String())
	}
	n, err := strconv.Atoi(f[len(f)-2])
	if err != nil {
		panic("hwNetCode: net field " + f[len(f)-2])
	}
	return n
}

// hwNewGun makes one gun from the factory and binds it the way engine.newInstance does
// (WarmUp result of the first gun of the pool as Shared deps).
func hwNewGun(newGun func() (core.Gun, error), aggr core.Aggregator, ctx context.Context, log *zap.Logger, inst int, shared *hwShared) (core.Gun, error) {
	g, err := newGun()
	if err != nil {
		return nil, err
	}
	shared.once.Do(func() {
		if w, ok := g.(warmup.WarmedUp); ok {
			shared.deps, shared.err = w.WarmUp(&warmup.Options{Log: log, Ctx: ctx})
		}
	})
	if shared.err != nil {
		return nil, shared.err
	}
	err = g.Bind(aggr, core.GunDeps{Ctx: ctx, Log: log, PoolID: "verif", InstanceID: inst, Shared: shared.deps})
	return g, err
}

type hwShared struct {
	once sync.Once
	deps interface{}
	err  error
}

// hwRunProvider starts provider.Run and returns a stop function that cancels it and waits (bounded).
func hwRunProvider(p core.Provider, log *zap.Logger) (stop func() error) {
	ctx, cancel := context.WithCancel(context.Background())
	done := make(chan error, 1)
	go func() { done <- p.Run(ctx, core.ProviderDeps{Log: log, PoolID: "verif"}) }()
	return func() error {
		cancel()
		select {
		case err := <-done:
			if errors.Is(err, context.Canceled) {
				return nil // Run may notice our cancel before it notices the end of its ammo
			}
			return err
		case <-time.After(60 * time.Second):
			return fmt.Errorf("provider.Run did not return within 60s after cancel")
		}
	}
}
