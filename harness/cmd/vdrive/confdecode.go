package main

// C17 driver: renders every abstract case of spec/ConfigDecode.tla (base configuration of a variant +
// the delta TLC computed for the mutation) into a Go map in the viper shape (map[string]interface{}) and
// in the yaml.v2 shape (map[interface{}]interface{}), decodes it with the REAL decoding chain
//
//	coreimport.Import + phttp.Import + grpc.Import  (registrations, hooks, tag resolvers)
//	config.DecodeAndValidate(map, cli.DefaultConfig())                       via = "decode"
//	cli.VerifReadConfig([]string{file})  (viper, discard_overflow default)   via = "cli"
//
// and reads the decoded component configs back.  Component config structs are private to factory closures,
// so next to the real registry a RECORDING registry is built: for every (plugin type, name) registered by the
// real imports it registers - under the same name - a constructor taking the same config type, with the same
// default-config func (both fetched from the real registry by reflection), that only records the config it
// received (confdecode_rec.go).  reg = "real" runs use the real constructors (outcome only).
//
// mode points: decodes the full base configuration of every variant and reports every struct node found by
// reflection in the decoded value = every place where an unknown key could be inserted.
//
// The driver records; TraceConfigDecode.tla decides.

import (
	"encoding/json"
	"flag"
	"fmt"
	"os"
	"path/filepath"
	"sort"
	"strconv"
	"strings"

	toml "github.com/pelletier/go-toml/v2"
	"github.com/spf13/afero"
	"github.com/yandex/pandora/cli"
	grpcimport "github.com/yandex/pandora/components/grpc/import"
	phttpimport "github.com/yandex/pandora/components/phttp/import"
	"github.com/yandex/pandora/core/config"
	coreimport "github.com/yandex/pandora/core/import"
	"github.com/yandex/pandora/core/plugin"
	"go.uber.org/zap"

	"verifharness/internal/vt"
)

func init() { register("confdecode", confdecodeMain) }

type cdEntry struct {
	P []string
	T string
	V string
}

type cdVariant struct {
	name   string
	leaves [][]string
	full   []cdEntry
	min    []cdEntry
}

type cdObs struct {
	C     map[string]interface{} `json:"c"`
	Via   string                 `json:"via"`
	MVia  string                 `json:"mvia"` // via with the input channel of the CLI reader: cli | cli-yml | cli-stdin | ... ; decode
	Shape string                 `json:"shape"`
	Reg   string                 `json:"reg"`
	Out   string                 `json:"out"`
	Stage string                 `json:"stage"` // when an error was reported: "load" (decoding the configuration) | "start" (first call of a factory)
	Got   []string               `json:"got"`
	Err   string                 `json:"err"` // free text, not compared
}

func strList(v interface{}) []string {
	out := []string{}
	for _, e := range vt.List(v) {
		out = append(out, vt.Str(e))
	}
	return out
}

func entries(v interface{}) []cdEntry {
	var out []cdEntry
	for _, e := range vt.List(v) {
		m := vt.Map(e)
		out = append(out, cdEntry{P: strList(m["p"]), T: vt.Str(m["t"]), V: vt.Str(m["v"])})
	}
	return out
}

func readVariants(path string) map[string]*cdVariant {
	out := map[string]*cdVariant{}
	for _, m := range vt.ReadNDJSON(path) {
		v := &cdVariant{name: vt.Str(m["name"]), full: entries(m["full"]), min: entries(m["min"])}
		for _, l := range vt.List(m["leaves"]) {
			v.leaves = append(v.leaves, strList(vt.Map(l)["p"]))
		}
		out[v.name] = v
	}
	return out
}

// ---- rendering entries into a config tree

type cdNode struct {
	kids map[string]*cdNode
	leaf interface{}
	set  bool
}

func (n *cdNode) put(p []string, val interface{}) {
	if len(p) == 0 {
		n.leaf, n.set, n.kids = val, true, nil
		return
	}
	if n.kids == nil {
		n.kids = map[string]*cdNode{}
	}
	n.set = false
	k := n.kids[p[0]]
	if k == nil {
		k = &cdNode{}
		n.kids[p[0]] = k
	}
	k.put(p[1:], val)
}

func typed(e cdEntry, props string) interface{} {
	switch e.T {
	case "int":
		n, err := strconv.Atoi(e.V)
		if err != nil {
			panic("bad int in case: " + e.V)
		}
		return n
	case "float":
		f, err := strconv.ParseFloat(e.V, 64)
		if err != nil {
			panic("bad float in case: " + e.V)
		}
		return f
	case "bool":
		return e.V == "true"
	case "null":
		return nil
	case "emptystr":
		return ""
	case "emptymap":
		return map[string]interface{}{}
	case "emptylist":
		return []interface{}{}
	case "nestedmap":
		return map[string]interface{}{"inner": map[string]interface{}{"deep": 1}, "other": "x"}
	case "list":
		l := []interface{}{}
		if e.V != "" {
			for _, s := range strings.Split(e.V, "|") {
				l = append(l, s)
			}
		}
		return l
	case "map":
		m := map[string]interface{}{}
		if e.V != "" {
			for _, s := range strings.Split(e.V, "|") {
				kv := strings.SplitN(s, "=", 2)
				m[kv[0]] = kv[1]
			}
		}
		return m
	}
	return strings.ReplaceAll(e.V, "@PROPS@", props)
}

func hasPrefix(p, q []string) bool {
	if len(q) > len(p) {
		return false
	}
	for i := range q {
		if p[i] != q[i] {
			return false
		}
	}
	return true
}

// build applies the delta to the base entries and renders the tree in the viper shape.
func build(base []cdEntry, set []cdEntry, del [][]string, props string) map[string]interface{} {
	root := &cdNode{}
	for _, e := range base {
		dead := false
		for _, d := range del {
			if hasPrefix(e.P, d) {
				dead = true
			}
		}
		if !dead {
			root.put(e.P, typed(e, props))
		}
	}
	for _, e := range set {
		root.put(e.P, typed(e, props))
	}
	m, _ := root.render().(map[string]interface{})
	if m == nil {
		m = map[string]interface{}{}
	}
	return m
}

func (n *cdNode) isMap() bool {
	if n == nil || n.set || n.kids == nil {
		return false
	}
	for k := range n.kids {
		if strings.HasPrefix(k, "#") {
			return false
		}
	}
	return true
}

func (n *cdNode) find(p []string) *cdNode {
	for _, k := range p {
		if n == nil || n.kids == nil {
			return nil
		}
		n = n.kids[k]
	}
	return n
}

// isMapPoint: p is a map in the written configuration, or it is absent and its parent is a map
func (n *cdNode) isMapPoint(p []string) bool {
	if x := n.find(p); x != nil {
		return x.isMap()
	}
	return len(p) > 0 && !strings.HasPrefix(p[len(p)-1], "#") && n.find(p[:len(p)-1]).isMap()
}

func (n *cdNode) render() interface{} {
	if n.set || n.kids == nil {
		return n.leaf
	}
	isList := true
	for k := range n.kids {
		if !strings.HasPrefix(k, "#") {
			isList = false
		}
	}
	if isList {
		idx := []int{}
		for k := range n.kids {
			i, _ := strconv.Atoi(k[1:])
			idx = append(idx, i)
		}
		sort.Ints(idx)
		l := []interface{}{}
		for _, i := range idx {
			l = append(l, n.kids["#"+strconv.Itoa(i)].render())
		}
		return l
	}
	m := map[string]interface{}{}
	for k, c := range n.kids {
		if strings.HasPrefix(k, "#") {
			panic("case mixes list indices and keys at one level")
		}
		m[k] = c.render()
	}
	return m
}

type cdEnv struct {
	realReg, recReg *plugin.Registry
	advNames        []string
	dir             string // scratch working directory (answ logs of real guns, property file, yaml files)
	props           string
}

func cdSetup() *cdEnv {
	dir, err := os.MkdirTemp("", "verif-confdecode-")
	if err != nil {
		panic(err)
	}
	if err := os.Chdir(dir); err != nil {
		panic(err)
	}
	fs := afero.NewMemMapFs()
	rawReq := "GET / HTTP/1.0\r\nHost: example.com\r\n\r\n"
	for f, content := range map[string]string{
		"./ammo.uri":   "[Host: example.com]\n/ tag1\n",
		"./ammo.raw":   strconv.Itoa(len(rawReq)) + " tag1\n" + rawReq,
		"./ammo.jsonl": `{"tag": "tag1", "uri": "/", "method": "GET", "headers": {"Accept": "*/*"}, "host": "example.com"}` + "\n",
		"./ammo.grpc":  `{"tag": "tag1", "call": "pkg.Service.Method", "payload": {}}` + "\n",
	} {
		_ = afero.WriteFile(fs, f, []byte(content), 0644)
	}
	coreimport.Import(fs)
	phttpimport.Import(fs)
	grpcimport.Import(fs)
	e := &cdEnv{realReg: plugin.DefaultRegistry(), dir: dir, props: filepath.Join(dir, "verif.properties")}
	e.recReg = buildRecRegistry(e.realReg)
	zapExitToPanic()
	return e
}

// placeholder prepares the environment and the property file of an ordinary placeholder case.  The neighbourhood is
// hostile on purpose: names that are a prefix / an extension of the requested one are always present, before and after it.
func (e *cdEnv) placeholder(name, val string, set bool) {
	os.Unsetenv(name)
	os.Setenv(name+"_EXT", "wrong-ext")
	os.Setenv(name[:len(name)-1], "wrong-short")
	content := name + "_EXT=wrong-ext\n" + name[:len(name)-1] + "=wrong-short\n# " + name + "=commented\n"
	if set {
		os.Setenv(name, val)
		content += name + "=" + val + "\n"
	}
	content += name + "2=wrong-2\n"
	if err := os.WriteFile(e.props, []byte(content), 0644); err != nil {
		panic(err)
	}
}

// multi prepares environment and property file of a value that holds SEVERAL placeholders (TLC: MultiOf) and returns the text
// of the value.  val -> VERIF_MV (holds the leaf's value), empty -> VERIF_ME (set, empty), unset -> VERIF_MU (not set; names
// that are a prefix / an extension of it are present).  Every part names its own source (env | property).
func (e *cdEnv) multi(m map[string]interface{}, val string) string {
	os.Unsetenv("VERIF_MU")
	os.Setenv("VERIF_MV", val)
	os.Setenv("VERIF_ME", "")
	os.Setenv("VERIF_MU_EXT", "wrong-ext")
	os.Setenv("VERIF_M", "wrong-short")
	content := "VERIF_MU_EXT=wrong-ext\nVERIF_M=wrong-short\n# VERIF_MU=commented\nVERIF_ME=\nVERIF_MV=" + val + "\nVERIF_MV2=wrong-2\n"
	if err := os.WriteFile(e.props, []byte(content), 0644); err != nil {
		panic(err)
	}
	names := map[string]string{"val": "VERIF_MV", "empty": "VERIF_ME", "unset": "VERIF_MU"}
	var phs []string
	for _, x := range vt.List(m["parts"]) {
		part := vt.Map(x)
		n, ok := names[vt.Str(part["what"])]
		if !ok {
			panic("unknown placeholder part " + vt.Str(part["what"]))
		}
		if vt.Str(part["src"]) == "env" {
			phs = append(phs, "${env:"+n+"}")
		} else {
			phs = append(phs, "${property:"+e.props+"#"+n+"}")
		}
	}
	return vt.Str(m["pre"]) + strings.Join(phs, vt.Str(m["sep"])) + vt.Str(m["post"])
}

// adversarial renders the environment of a phadv case as TLC describes it (property file lines, end of line, variables)
// and returns the placeholder text for the requested key / name.
func (e *cdEnv) adversarial(adv map[string]interface{}) string {
	for _, n := range append(e.advNames, "VERIF_PH", "VERIF_P", "VERIF_PH_EXT") {
		os.Unsetenv(n)
	}
	e.advNames = nil
	req := vt.Str(adv["req"])
	if vt.Str(adv["src"]) == "env" {
		for _, x := range vt.List(adv["envs"]) {
			m := vt.Map(x)
			os.Setenv(vt.Str(m["n"]), vt.Str(m["v"]))
			e.advNames = append(e.advNames, vt.Str(m["n"]))
		}
		return "${env:" + req + "}"
	}
	eol := "\n"
	if vt.Str(adv["eol"]) == "crlf" {
		eol = "\r\n"
	}
	content := ""
	for _, x := range vt.List(adv["lines"]) {
		m := vt.Map(x)
		if vt.Str(m["t"]) == "kv" {
			content += vt.Str(m["k"]) + "=" + vt.Str(m["v"]) + eol
		} else {
			content += vt.Str(m["k"]) + eol
		}
	}
	if err := os.WriteFile(e.props, []byte(content), 0644); err != nil {
		panic(err)
	}
	return "${property:" + e.props + "#" + req + "}"
}

// decodeVia runs one path through the real code and reads the decoded value back.
func (e *cdEnv) decodeVia(via, shape, reg string, tree map[string]interface{}, leaves [][]string) (out string, got []string, errText string, points [][]string) {
	out, got, errText, points, _ = e.decodeViaStage(via, shape, reg, tree, leaves)
	return
}

func (e *cdEnv) decodeViaStage(via, shape, reg string, tree map[string]interface{}, leaves [][]string) (out string, got []string, errText string, points [][]string, stage string) {
	if reg == "real" {
		plugin.SetDefaultRegistry(e.realReg)
	} else {
		plugin.SetDefaultRegistry(e.recReg)
	}
	defer plugin.SetDefaultRegistry(e.realReg)
	var conf *cli.CliConfig
	func() {
		defer func() {
			if r := recover(); r != nil {
				if _, isExit := r.(zapExit); isExit {
					out, errText = "error", "log.Fatal in the CLI config reader"
					return
				}
				out, errText = "panic", firstLine(fmt.Sprint(r))
			}
		}()
		if strings.HasPrefix(via, "cli") {
			// readConfig installs a development logger as zap's global one; put the no-op logger back afterwards
			// (the hooks log at debug level through zap.L())
			defer zap.ReplaceGlobals(zap.NewNop())
			conf = e.cliRead(strings.TrimPrefix(strings.TrimPrefix(via, "cli"), "-"), tree)
			out = "ok"
			return
		}
		conf = cli.DefaultConfig()
		if err := config.DecodeAndValidate(shapeMap(tree, shape), conf); err != nil {
			out, errText = "error", oneLine(err.Error())
			return
		}
		out = "ok"
	}()
	if out != "ok" {
		stage = "load"
		return
	}
	// read back (calls the gun / rps factories once: a schedule config is decoded when the factory is called)
	w := newCdWalker()
	func() {
		defer func() {
			if r := recover(); r != nil {
				out, errText = "panic", "walk: "+firstLine(fmt.Sprint(r))
			}
		}()
		w.walkRoot(conf)
	}()
	if out == "ok" && w.err != nil {
		out, errText = "error", oneLine(w.err.Error())
	}
	if out != "ok" {
		stage = "start"
		return
	}
	if reg == "rec" {
		for _, p := range leaves {
			v, ok := w.vals[strings.ToLower(strings.Join(p, "\x00"))]
			if !ok {
				v = "<missing>"
			}
			got = append(got, v)
		}
	}
	points = w.points
	return
}

// cdDecoy is a valid configuration that must never be the one the CLI reader uses: it lies in the search directories
// (./load.yaml, ./config/load.yaml) whenever the case's configuration arrives through another channel.
const cdDecoy = `{"pools": [{"id": "decoy", "gun": {"type": "http", "target": "1.2.3.4:5"}, "ammo": {"type": "uri", "file": "./ammo.uri"},
 "result": {"type": "discard"}, "rps": {"type": "once", "times": 1}, "startup": {"type": "once", "times": 1}, "discard_overflow": false}],
 "log": {"level": "debug"}}`

// cliRead hands the configuration to cli.readConfig through one of its input channels:
//
//	""          file named on the command line, .yaml      yml / noext / json / toml   the same with another extension / syntax
//	stdin       `pandora -` (YAML text on standard input)
//	cwd         no argument, ./load.yaml                    cwdjson  ./load.json        cwdconfig  ./config/load.yaml
//
// in a fresh working directory; the decoy lies wherever the search could wrongly pick it up.
func (e *cdEnv) cliRead(channel string, tree map[string]interface{}) *cli.CliConfig {
	b, err := json.Marshal(tree) // JSON is YAML
	if err != nil {
		panic(err)
	}
	wd := filepath.Join(e.dir, "wd")
	_ = os.RemoveAll(wd)
	write := func(rel string, content []byte) string {
		f := filepath.Join(wd, rel)
		if err := os.MkdirAll(filepath.Dir(f), 0755); err != nil {
			panic(err)
		}
		if err := os.WriteFile(f, content, 0644); err != nil {
			panic(err)
		}
		return f
	}
	if err := os.MkdirAll(wd, 0755); err != nil {
		panic(err)
	}
	old, err := os.Getwd()
	if err != nil {
		panic(err)
	}
	if err := os.Chdir(wd); err != nil {
		panic(err)
	}
	defer func() { _ = os.Chdir(old) }()
	var args []string
	switch channel {
	case "cwd":
		write("load.yaml", b)
		write("config/load.yaml", []byte(cdDecoy))
	case "cwdjson":
		write("load.json", b)
		write("config/load.yaml", []byte(cdDecoy))
	case "cwdconfig":
		write("config/load.yaml", b)
	default:
		write("load.yaml", []byte(cdDecoy))
		write("config/load.yaml", []byte(cdDecoy))
		switch channel {
		case "":
			args = []string{write("case/conf.yaml", b)}
		case "yml":
			args = []string{write("case/conf.yml", b)}
		case "noext":
			args = []string{write("case/conf", b)}
		case "json":
			args = []string{write("case/conf.json", b)}
		case "toml":
			t, err := toml.Marshal(tree)
			if err != nil {
				panic("toml rendering: " + err.Error())
			}
			args = []string{write("case/conf.toml", t)}
		case "stdin":
			f, err := os.Open(write("case/stdin.txt", b))
			if err != nil {
				panic(err)
			}
			defer f.Close()
			oldIn := os.Stdin
			os.Stdin = f
			defer func() { os.Stdin = oldIn }()
			args = []string{"-"}
		default:
			panic("unknown channel " + channel)
		}
	}
	return cli.VerifReadConfig(args)
}

func confdecodeMain(args []string) {
	fs := flag.NewFlagSet("confdecode", flag.ExitOnError)
	mode := fs.String("mode", "run", "points | run | conc (overlapping decodes; build with -race)")
	goroutines := fs.Int("goroutines", 6, "conc: concurrent decoders")
	rounds := fs.Int("rounds", 4, "conc: passes over all sections per goroutine")
	variantsF := fs.String("variants", "", "variants file generated by TLC")
	in := fs.String("in", "", "case file generated by TLC")
	out := fs.String("out", "", "output (ndjson)")
	cliStride := fs.Int("cli-stride", 1, "run every n-th case through the CLI reader as well")
	realStride := fs.Int("real-stride", 1, "run every n-th eligible case with the real constructors as well")
	chanPer := fs.Int("channels-per-case", 2, "how many of the other input channels of the CLI reader a channel case is run through (0 = all; kind none: always all)")
	_ = fs.Parse(args)
	vars := readVariants(*variantsF)
	w := vt.Create(*out)
	defer w.Close()
	e := cdSetup()
	defer os.RemoveAll(e.dir)

	if *mode == "conc" {
		w.Close()
		confdecodeConc(vars, e, *out, *goroutines, *rounds)
		return
	}
	if *mode == "points" {
		names := []string{}
		for n := range vars {
			names = append(names, n)
		}
		sort.Strings(names)
		for _, n := range names {
			v := vars[n]
			tree := build(v.full, nil, nil, e.props)
			o, _, errText, points := e.decodeVia("decode", "viper", "rec", tree, v.leaves)
			if o != "ok" {
				fmt.Fprintf(os.Stderr, "points: full base configuration of %s does not decode: %s\n", n, errText)
				w.Emit(map[string]interface{}{"v": n, "p": []string{"<base-config-rejected>", errText}})
				continue
			}
			seen := map[string]bool{}
			root := &cdNode{}
			for _, en := range v.full {
				root.put(en.P, en.V)
			}
			for _, p := range points {
				// keep a struct node only if it is a map level of the configuration as written, or a new key of one
				key := strings.Join(p, "\x00")
				if root.isMapPoint(p) && !seen[key] {
					seen[key] = true
					w.Emit(map[string]interface{}{"v": n, "p": append([]string{}, p...)})
				}
			}
		}
		return
	}

	seed := int(vt.Seed())
	for i, line := range vt.ReadNDJSON(*in) {
		c := vt.Map(line["c"])
		delta := vt.Map(line["delta"])
		v := vars[vt.Str(c["v"])]
		base := v.full
		if vt.Str(c["base"]) == "min" {
			base = v.min
		}
		var del [][]string
		for _, d := range vt.List(delta["del"]) {
			del = append(del, strList(d))
		}
		set := entries(delta["set"])
		kind := vt.Str(c["kind"])
		phSet := vt.Bool(c["set"]) && (kind == "ph" || kind == "emb" || kind == "emblist" || kind == "phrange")
		if kind == "pair" { // two mutations at once (ConfigDecodePairs.tla): TLC says whether the variable is set
			phSet = vt.Bool(line["phset"])
		}
		e.placeholder("VERIF_PH", vt.Str(line["phval"]), phSet)
		if kind == "phadv" {
			ph := e.adversarial(vt.Map(line["adv"]))
			for i := range set {
				set[i].V = strings.ReplaceAll(set[i].V, "@ADVPH@", ph)
			}
		}
		if kind == "phmulti" || kind == "phmultisep" {
			text := e.multi(vt.Map(line["multi"]), vt.Str(line["phval"]))
			for i := range set {
				set[i].V = strings.ReplaceAll(set[i].V, "@MULTIPH@", text)
			}
		}
		emit := func(via, shape, reg string) {
			tree := build(base, set, del, e.props)
			o, got, errText, _, stage := e.decodeViaStage(via, shape, reg, tree, v.leaves)
			if got == nil {
				got = []string{}
			}
			v0 := via
			if strings.HasPrefix(via, "cli") {
				v0 = "cli"
			}
			w.Emit(cdObs{C: c, Via: v0, MVia: via, Shape: shape, Reg: reg, Out: o, Stage: stage, Got: got, Err: errText})
		}
		emit("decode", "viper", "rec")
		emit("decode", "yaml", "rec")
		if (i+seed)%*cliStride == 0 {
			emit("cli", "viper", "rec")
		}
		// the other input channels of the CLI reader (which ones apply is TLC's: line.vias)
		if chans := strList(line["vias"]); len(chans) > 0 {
			sort.Strings(chans)
			n := *chanPer
			if n == 0 || n > len(chans) || kind == "none" {
				n = len(chans)
			}
			for k := 0; k < n; k++ {
				emit(chans[(i+seed+k)%len(chans)], "viper", "rec")
			}
		}
		// the real constructors: outcome only, and only for mutations that cannot reach a constructor with a value its
		// validation should have stopped (a constructor fed such a value may not return: NewStep with step 0);
		// not for the scenario variant (the providers parse the scenario file)
		realKinds := map[string]bool{"none": true, "unknown": true, "wrongtype": true, "dropcomp": true}
		if v.name != "V3" && realKinds[kind] && (i+seed)%*realStride == 0 {
			emit("decode", "viper", "real")
		}
	}
}

func oneLine(s string) string {
	s = strings.Join(strings.Fields(s), " ")
	if len(s) > 400 {
		s = s[:400]
	}
	return s
}
