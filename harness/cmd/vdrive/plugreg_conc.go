package main

// C18 driver, overlapping factory calls (`vdrive plugreg -mode conc`, built with -race by the check):
// core/engine calls one NewGun / NewRPSSchedule factory from many instance goroutines.  For the TLC-generated cases
// that create a factory (no injected failure), G goroutines call the SAME factory R times each without any
// synchronisation between them.  Every decode of the config stamps it (the TextUnmarshaler field gets a stamp unique
// to goroutine and call - no shared counter, no atomics: the driver must not order the calls it wants to overlap);
// every goroutine records, per call, the stamp its own call decoded and the stamp found in the config its product holds.
// The driver records; TracePluginRegistryConc.tla decides (and the race detector's reports are handed to it too).

import (
	"reflect"
	"runtime"
	"strconv"
	"sync"

	"github.com/yandex/pandora/core/config"
	"github.com/yandex/pandora/core/plugin"

	"verifharness/internal/vt"
)

type pcSlot struct {
	base, n, lastDec int
	calls            []pcCall
	bad              int
}

type pcCall struct {
	G   int `json:"g"`
	Dec int `json:"dec"`
	Got int `json:"got"`
}

// goroutine id -> slot; written before the callers start, read-only while they run
var pcSlots map[int]*pcSlot

const pcCreatedStamp = 7

func curGoid() int {
	var buf [64]byte
	n := runtime.Stack(buf[:], false)
	// "goroutine 123 ["
	id := 0
	for _, ch := range buf[len("goroutine "):n] {
		if ch < '0' || ch > '9' {
			break
		}
		id = id*10 + int(ch-'0')
	}
	return id
}

type pcMarker string

func (m *pcMarker) UnmarshalText([]byte) error {
	s := pcSlots[curGoid()]
	if s == nil { // decoded outside the callers: at creation (factory constructors)
		*m = pcMarker(strconv.Itoa(pcCreatedStamp))
		return nil
	}
	s.n++
	s.lastDec = s.base + s.n
	*m = pcMarker(strconv.Itoa(s.lastDec))
	return nil
}

type pcConf struct {
	A int
	B string
	C pcMarker
}

func concEligible(c map[string]interface{}) bool {
	return vt.Str(c["reg"]) == "synth" && vt.Str(c["how"]) == "Register" && vt.Str(c["form"]) != "New" && vt.Str(c["fail"]) == "none" &&
		!vt.Bool(c["mutate"]) && vt.Str(c["nested"]) == "none" && vt.Str(c["cfg"]) != "none" && vt.Int(c["calls"]) == 2 &&
		vt.Str(c["user"]) == "set" && vt.Str(c["dv"]) == "valid"
}

func runConcCase(c map[string]interface{}, goroutines, rounds int) map[string]interface{} {
	ret, cfg, form := vt.Str(c["ret"]), vt.Str(c["cfg"]), vt.Str(c["form"])
	cerr, ferr, impl, dflt := vt.Bool(c["cerr"]), vt.Bool(c["ferr"]), vt.Bool(c["impl"]), vt.Bool(c["dflt"])
	reg := plugin.NewRegistry()
	plugin.SetDefaultRegistry(reg)
	pcSlots = map[int]*pcSlot{}

	ctor, regArgs := pcConstructor(ret, cfg, cerr, ferr, impl, dflt)
	reg.Register(pluginIface, "x", ctor.Interface(), regArgs...)
	userMap := shapeMap(map[string]interface{}{"p": map[string]interface{}{"type": "x", "a": 5, "c": "u"}}, vt.Str(c["shape"]))
	var holder interface{}
	if form == "FactoryErr" {
		holder = &struct{ P func() (prPlugin, error) }{}
	} else {
		holder = &struct{ P func() prPlugin }{}
	}
	out := map[string]interface{}{"kind": "calls", "c": c, "created": pcCreatedStamp, "calls": []pcCall{}, "bad": 0}
	if err := config.DecodeAndValidate(userMap, holder); err != nil {
		out["bad"] = 1
		return out
	}
	factory := reflect.ValueOf(holder).Elem().Field(0)

	slots := make([]*pcSlot, goroutines)
	var ready, start, finished sync.WaitGroup
	ready.Add(goroutines)
	start.Add(1)
	finished.Add(goroutines)
	ids := make([]int, goroutines)
	for g := 0; g < goroutines; g++ {
		slots[g] = &pcSlot{base: (g + 1) * 1000000}
		go func(g int) {
			defer finished.Done()
			ids[g] = curGoid()
			ready.Done()
			start.Wait() // the only synchronisation: the id table is complete and published before the calls begin
			s := slots[g]
			for r := 0; r < rounds; r++ {
				func() {
					defer func() {
						if recover() != nil {
							s.bad++
						}
					}()
					outs := factory.Call(nil)
					if len(outs) == 2 && !outs[1].IsNil() {
						s.bad++
						return
					}
					p, _ := outs[0].Interface().(prPlugin)
					if p == nil {
						s.bad++
						return
					}
					v := reflect.Indirect(reflect.ValueOf(p.prRec().conf))
					got, _ := strconv.Atoi(v.FieldByName("C").String())
					dec := s.lastDec
					if ret == "fact" {
						dec = pcCreatedStamp
					}
					s.calls = append(s.calls, pcCall{G: g + 1, Dec: dec, Got: got})
				}()
			}
		}(g)
	}
	ready.Wait()
	for g := 0; g < goroutines; g++ {
		pcSlots[ids[g]] = slots[g]
	}
	start.Done()
	finished.Wait()
	calls, bad := []pcCall{}, 0
	for _, s := range slots {
		calls = append(calls, s.calls...)
		bad += s.bad
	}
	out["calls"], out["bad"] = calls, bad
	return out
}

// ---- Registry.New called concurrently, every call with its own config map (PluginRegistryConc.tla, Ret = "new")

type prPlugin2 interface{ prRec2() *pcConf2 }
type prProduct2 struct{ conf *pcConf2 }

func (p *prProduct2) prRec2() *pcConf2 { return p.conf }

type pcConf2 struct {
	A int
	Z string
}

func concNewEligible(c map[string]interface{}) bool {
	return vt.Str(c["reg"]) == "synth" && vt.Str(c["how"]) == "Register" && vt.Str(c["form"]) == "New" && vt.Str(c["fail"]) == "none" &&
		vt.Str(c["nested"]) == "none" && vt.Str(c["cfg"]) != "none" && vt.Str(c["user"]) == "set" && vt.Str(c["dv"]) == "valid"
}

// runConcNewCase: G goroutines decode a plugin-typed field (-> pluginconfig.Hook -> Registry.New) at the same time, each call
// from its OWN map carrying a stamp unique to goroutine and call; even goroutines ask for the case's entry (type prPlugin,
// name x), odd ones for another plugin type with another config struct.  dec = the stamp the call put into its map,
// got = the stamp in the config the product holds.
func runConcNewCase(c map[string]interface{}, goroutines, rounds int) map[string]interface{} {
	ret, cfg := vt.Str(c["ret"]), vt.Str(c["cfg"])
	cerr, ferr, impl, dflt := vt.Bool(c["cerr"]), vt.Bool(c["ferr"]), vt.Bool(c["impl"]), vt.Bool(c["dflt"])
	reg := plugin.NewRegistry()
	plugin.SetDefaultRegistry(reg)
	pcSlots = map[int]*pcSlot{}
	ctor, regArgs := pcConstructor(ret, cfg, cerr, ferr, impl, dflt)
	reg.Register(pluginIface, "x", ctor.Interface(), regArgs...)
	reg.Register(reflect.TypeOf((*prPlugin2)(nil)).Elem(), "y", func(conf *pcConf2) prPlugin2 { return &prProduct2{conf: conf} },
		func() *pcConf2 { return &pcConf2{Z: "z"} })
	shape := vt.Str(c["shape"])
	out := map[string]interface{}{"kind": "calls", "c": c, "created": pcCreatedStamp, "calls": []pcCall{}, "bad": 0}
	// sequential warm-up (compiles the config hooks)
	warm := &struct{ P prPlugin }{}
	if err := config.DecodeAndValidate(shapeMap(map[string]interface{}{"p": map[string]interface{}{"type": "x", "a": 1, "c": "u"}}, shape), warm); err != nil {
		out["bad"] = 1
		return out
	}
	slots := make([]*pcSlot, goroutines)
	var start, finished sync.WaitGroup
	start.Add(1)
	finished.Add(goroutines)
	for g := 0; g < goroutines; g++ {
		slots[g] = &pcSlot{base: (g + 1) * 1000000}
		go func(g int) {
			defer finished.Done()
			start.Wait()
			s := slots[g]
			for r := 1; r <= rounds; r++ {
				stamp := s.base + r
				func() {
					defer func() {
						if recover() != nil {
							s.bad++
						}
					}()
					got := -1
					if g%2 == 0 {
						h := &struct{ P prPlugin }{}
						m := shapeMap(map[string]interface{}{"p": map[string]interface{}{"type": "x", "a": stamp, "c": "u"}}, shape)
						if err := config.DecodeAndValidate(m, h); err != nil || h.P == nil {
							s.bad++
							return
						}
						got = int(reflect.Indirect(reflect.ValueOf(h.P.prRec().conf)).FieldByName("A").Int())
					} else {
						h := &struct{ P prPlugin2 }{}
						m := shapeMap(map[string]interface{}{"p": map[string]interface{}{"type": "y", "a": stamp}}, shape)
						if err := config.DecodeAndValidate(m, h); err != nil || h.P == nil {
							s.bad++
							return
						}
						got = h.P.prRec2().A
					}
					s.calls = append(s.calls, pcCall{G: g + 1, Dec: stamp, Got: got})
				}()
			}
		}(g)
	}
	start.Done()
	finished.Wait()
	calls, bad := []pcCall{}, 0
	for _, s := range slots {
		calls = append(calls, s.calls...)
		bad += s.bad
	}
	out["calls"], out["bad"] = calls, bad
	return out
}

// pcConstructor builds the constructor (and default-config func) of a case's shape; it keeps no shared state.
func pcConstructor(ret, cfg string, cerr, ferr, impl, dflt bool) (reflect.Value, []interface{}) {
	confT := reflect.TypeOf(pcConf{})
	argT := []reflect.Type{confT}
	if cfg == "ptr" {
		argT = []reflect.Type{reflect.PtrTo(confT)}
	}
	prodT := pluginIface
	if impl {
		prodT = implType
	}
	mk := func(conf interface{}) reflect.Value {
		v := reflect.New(prodT).Elem()
		v.Set(reflect.ValueOf(&prProduct{conf: conf}))
		return v
	}
	nilErr := reflect.Zero(errType)
	var ctor reflect.Value
	if ret == "comp" {
		outs := []reflect.Type{prodT}
		if cerr {
			outs = append(outs, errType)
		}
		ctor = reflect.MakeFunc(reflect.FuncOf(argT, outs, false), func(in []reflect.Value) []reflect.Value {
			res := []reflect.Value{mk(in[0].Interface())}
			if cerr {
				res = append(res, nilErr)
			}
			return res
		})
	} else {
		fouts := []reflect.Type{prodT}
		if ferr {
			fouts = append(fouts, errType)
		}
		factT := reflect.FuncOf(nil, fouts, false)
		outs := []reflect.Type{factT}
		if cerr {
			outs = append(outs, errType)
		}
		ctor = reflect.MakeFunc(reflect.FuncOf(argT, outs, false), func(in []reflect.Value) []reflect.Value {
			conf := in[0].Interface()
			f := reflect.MakeFunc(factT, func([]reflect.Value) []reflect.Value {
				res := []reflect.Value{mk(conf)}
				if ferr {
					res = append(res, nilErr)
				}
				return res
			})
			res := []reflect.Value{f}
			if cerr {
				res = append(res, nilErr)
			}
			return res
		})
	}
	var regArgs []interface{}
	if dflt {
		d := reflect.MakeFunc(reflect.FuncOf(nil, argT, false), func([]reflect.Value) []reflect.Value {
			v := reflect.New(confT)
			v.Elem().FieldByName("A").SetInt(7)
			v.Elem().FieldByName("B").SetString("d")
			if cfg == "ptr" {
				return []reflect.Value{v}
			}
			return []reflect.Value{v.Elem()}
		})
		regArgs = append(regArgs, d.Interface())
	}
	return ctor, regArgs
}
