// C15 for the grpc/scenario gun: renderer of the TLC-generated flow cases (gun = "grpc") into the grpc scenario
// payload format (calls / scenarios), run by `vdrive scenario` against scentarget.GrpcFlowTarget.
package main

import (
	"fmt"
	"strings"

	"verifharness/internal/vt"
)

func grpcRef(use map[string]interface{}) string {
	switch vt.Str(use["src"]) {
	case "pre":
		return "{{.request." + vt.Str(use["of"]) + ".preprocessor.row}}"
	case "post": // the reply message IS request.<name>.postprocessor
		return "{{.request." + vt.Str(use["of"]) + ".postprocessor.hello}}"
	case "ghost":
		return "{{.request.zz.postprocessor.hello}}"
	case "bad":
		return "{{.source.users.id}}"
	}
	return ""
}

func grpcPreMapping(pre map[string]interface{}, idx int) string {
	if vt.Str(pre["k"]) == "from" {
		return "request." + vt.Str(pre["of"]) + ".postprocessor.hello"
	}
	return preMapping(pre, idx)
}

func scnRenderGrpcYAML(c map[string]interface{}, dir string) string {
	var b strings.Builder
	id := vt.Int(c["id"])
	b.WriteString(sourcesYAML(dir))
	b.WriteString("calls:\n")
	reqs := vt.Map(c["reqs"])
	for _, name := range sortedNames(reqs) {
		d := vt.Map(reqs[name])
		use := vt.Map(d["use"])
		inPayload, inMeta := "", ""
		switch vt.Str(use["at"]) {
		case "payload":
			inPayload = grpcRef(use)
		case "meta":
			inMeta = grpcRef(use)
		}
		fmt.Fprintf(&b, "  - name: %s\n    tag: %s\n    call: target.TargetService.Hello\n", name, name)
		fmt.Fprintf(&b, "    payload: '{\"name\": \"%s:%s\"}'\n", name, inPayload)
		fmt.Fprintf(&b, "    metadata:\n      x-req: %s\n", name)
		if inMeta != "" {
			fmt.Fprintf(&b, "      x-val: '%s'\n", inMeta)
		}
		if pre := grpcPreMapping(vt.Map(d["pre"]), vt.Int(c["idx"])); pre != "" {
			fmt.Fprintf(&b, "    preprocessors:\n      - type: prepare\n        mapping:\n          row: %s\n", pre)
		}
		if vt.Bool(d["assert"]) {
			b.WriteString("    postprocessors:\n      - type: assert/response\n        status_code: 200\n")
		}
	}
	b.WriteString("scenarios:\n")
	for _, s := range vt.List(c["scens"]) {
		sc := vt.Map(s)
		b.WriteString(scenYAML(sc, id))
	}
	return b.String()
}
