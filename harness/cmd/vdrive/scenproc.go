// vdrive scenproc: C15, processors (spec -> code).  Reads the cases TLC generated from ScenarioProcMC - a response letter
// and a chain of postprocessors (var/header with modifier chains, var/jsonpath, var/xpath, assert/response), or a variable
// function - and the abstract documents the letters refer to, renders ONE scenario per case (step a: the case's processors,
// answered with the case's response letter; step b: every captured variable rendered into a header of its own), builds the
// REAL http/scenario provider and gun through the registered factories and runs a real engine (one instance, so every
// scenario is shot exactly once) against an in-process target.  Recorded per case: the samples of a and b, how often the
// target saw a and b, the texts b's headers carried (as lists of characters).  Nothing is decided here:
// TraceScenarioProc.tla compares with Expected(case).
package main

import (
	"encoding/json"
	"flag"
	"fmt"
	"net"
	"net/http"
	"os"
	"path/filepath"
	"strconv"
	"strings"
	"sync"
	"time"

	"verifharness/internal/vt"
)

func init() {
	register("scenproc", scenprocMain)
}

func chars(v interface{}) string {
	var b strings.Builder
	for _, c := range vt.List(v) {
		b.WriteString(vt.Str(c))
	}
	return b.String()
}

func toChars(s string) []string {
	out := []string{}
	for _, r := range s {
		out = append(out, string(r))
	}
	return out
}

// ---------------------------------------------------------------- renderers: abstract documents -> text

func procRenderJSON(n map[string]interface{}) string {
	switch vt.Str(n["k"]) {
	case "str":
		b, _ := json.Marshal(chars(n["s"]))
		return string(b)
	case "int":
		return strconv.Itoa(vt.Int(n["n"]))
	case "flt", "bool":
		return chars(n["s"])
	case "null":
		return "null"
	case "list":
		parts := []string{}
		for _, x := range vt.List(n["items"]) {
			parts = append(parts, procRenderJSON(vt.Map(x)))
		}
		return "[" + strings.Join(parts, ", ") + "]"
	case "map":
		parts := []string{}
		keys := vt.List(n["keys"])
		for i, x := range vt.List(n["items"]) {
			kb, _ := json.Marshal(chars(keys[i]))
			parts = append(parts, string(kb)+": "+procRenderJSON(vt.Map(x)))
		}
		return "{" + strings.Join(parts, ", ") + "}"
	}
	panic("unknown JSON node kind " + vt.Str(n["k"]))
}

func procRenderHTML(divs []interface{}) string {
	var b strings.Builder
	b.WriteString("<html><head><title>t</title></head><body><p>hello</p>")
	for _, d := range divs {
		m := vt.Map(d)
		b.WriteString("<div")
		if id := chars(m["id"]); id != "" {
			fmt.Fprintf(&b, ` id="%s"`, id)
		}
		if cl := chars(m["cls"]); cl != "" {
			fmt.Fprintf(&b, ` class="%s"`, cl)
		}
		fmt.Fprintf(&b, ">%s</div>", chars(m["txt"]))
	}
	b.WriteString("</body></html>")
	return b.String()
}

type procDocs struct {
	bodies map[string]string
	ctype  map[string]string
	hdr    map[string]string
}

func loadDocs(path string) procDocs {
	raw, err := os.ReadFile(path)
	if err != nil {
		panic(err)
	}
	var m map[string]interface{}
	if err := json.Unmarshal(raw, &m); err != nil {
		panic(err)
	}
	toks := []string{}
	for _, t := range vt.List(m["notjson"]) {
		toks = append(toks, chars(t))
	}
	return procDocs{
		bodies: map[string]string{
			"obj":     procRenderJSON(vt.Map(m["obj"])),
			"arr":     procRenderJSON(vt.Map(m["arr"])),
			"html":    procRenderHTML(vt.List(m["html"])),
			"notjson": "<<< " + strings.Join(toks, " ") + " {this is not json",
			"empty":   "",
		},
		ctype: map[string]string{"obj": "application/json", "arr": "application/json", "html": "text/html", "notjson": "text/plain", "empty": "text/plain"},
		hdr:   map[string]string{"long": chars(m["long"]), "short": chars(m["short"]), "absent": ""},
	}
}

// ---------------------------------------------------------------- renderer: case -> requests a<i>, b<i>

func modString(md map[string]interface{}) string {
	switch vt.Str(md["m"]) {
	case "lower", "upper":
		return vt.Str(md["m"])
	case "substr":
		if vt.Bool(md["hasb"]) {
			return fmt.Sprintf("substr(%d,%d)", vt.Int(md["a"]), vt.Int(md["b"]))
		}
		return fmt.Sprintf("substr(%d)", vt.Int(md["a"]))
	case "replace":
		return fmt.Sprintf("replace(%s,%s)", chars(md["s"]), chars(md["r"]))
	}
	panic("unknown modifier")
}

func jsonPathString(path []interface{}) string {
	s := "$"
	for _, st := range path {
		m := vt.Map(st)
		if vt.Int(m["idx"]) >= 0 {
			s += fmt.Sprintf("[%d]", vt.Int(m["idx"]))
		} else {
			s += "." + chars(m["key"])
		}
	}
	return s
}

func xpathString(q map[string]interface{}) string {
	switch vt.Str(q["by"]) {
	case "id":
		return "//div[@id='" + chars(q["v"]) + "']"
	case "class":
		return "//div[@class='" + chars(q["v"]) + "']"
	case "p":
		return "//section"
	case "count":
		return "count(//div)"
	}
	panic("unknown xpath query")
}

func procYAML(p map[string]interface{}, blen int) string {
	var b strings.Builder
	switch vt.Str(p["kind"]) {
	case "header":
		spec := vt.Str(p["hname"])
		for _, md := range vt.List(p["mods"]) {
			spec += "|" + modString(vt.Map(md))
		}
		fmt.Fprintf(&b, "      - type: var/header\n        mapping:\n          %s: '%s'\n", vt.Str(p["var"]), spec)
	case "jsonpath":
		fmt.Fprintf(&b, "      - type: var/jsonpath\n        mapping:\n          %s: '%s'\n", vt.Str(p["var"]), jsonPathString(vt.List(p["path"])))
	case "xpath":
		fmt.Fprintf(&b, "      - type: var/xpath\n        mapping:\n          %s: \"%s\"\n", vt.Str(p["var"]), xpathString(vt.Map(p["q"])))
	case "assert":
		as := vt.Map(p["as"])
		b.WriteString("      - type: assert/response\n")
		if vt.Bool(as["hon"]) {
			fmt.Fprintf(&b, "        headers:\n          X-Tok: '%s'\n", chars(as["hpat"]))
		}
		if pats := vt.List(as["body"]); len(pats) > 0 {
			b.WriteString("        body:\n")
			for _, t := range pats {
				fmt.Fprintf(&b, "          - '%s'\n", chars(t))
			}
		}
		if st := vt.Int(as["status"]); st != 0 {
			fmt.Fprintf(&b, "        status_code: %d\n", st)
		}
		if vt.Bool(as["son"]) {
			fmt.Fprintf(&b, "        size:\n          val: %d\n          op: '%s'\n", blen+vt.Int(as["delta"]), vt.Str(as["op"]))
		}
	}
	return b.String()
}

// fnCall renders a variable function: call form of preprocessor mappings and `variables` sources / template form
func fnCall(fn map[string]interface{}, tmpl bool) string {
	name, n := vt.Str(fn["f"]), vt.Int(fn["nargs"])
	args := []string{}
	if n >= 1 {
		args = append(args, strconv.Itoa(vt.Int(fn["a"])))
	}
	if n >= 2 {
		if name == "randString" {
			if tmpl {
				args = append(args, `"`+chars(fn["letters"])+`"`)
			} else {
				args = append(args, chars(fn["letters"]))
			}
		} else {
			args = append(args, strconv.Itoa(vt.Int(fn["b"])))
		}
	}
	if tmpl {
		return strings.TrimSpace("{{" + name + " " + strings.Join(args, " ") + "}}")
	}
	return name + "(" + strings.Join(args, ", ") + ")"
}

func procPayload(cases []map[string]interface{}, docs procDocs) string {
	var b strings.Builder
	b.WriteString("variable_sources:\n  - type: variables\n    name: fvars\n    variables:\n      zero: x\n")
	for _, c := range cases {
		if vt.Str(c["kind"]) == "fn" && vt.Str(c["where"]) == "src" {
			fmt.Fprintf(&b, "      f%d: '%s'\n", vt.Int(c["id"]), fnCall(vt.Map(c["fn"]), false))
		}
	}
	b.WriteString("requests:\n")
	for _, c := range cases {
		i := vt.Int(c["id"])
		if vt.Str(c["kind"]) == "fn" {
			fn := vt.Map(c["fn"])
			fmt.Fprintf(&b, "  - name: a%d\n    method: GET\n    uri: /a\n    headers:\n      X-Case: '%d'\n      X-Step: a\n      X-Resp: 200/long/obj\n", i, i)
			switch vt.Str(c["where"]) {
			case "pre":
				fmt.Fprintf(&b, "      X-P: '[{{.request.a%d.preprocessor.p1}}]'\n    preprocessor:\n      mapping:\n        p1: '%s'\n", i, fnCall(fn, false))
			case "tmpl":
				fmt.Fprintf(&b, "      X-P: '[%s]'\n", fnCall(fn, true))
			case "src":
				fmt.Fprintf(&b, "      X-P: '[{{.source.fvars.f%d}}]'\n", i)
			}
			continue
		}
		r := vt.Map(c["resp"])
		body := vt.Str(r["body"])
		fmt.Fprintf(&b, "  - name: a%d\n    method: GET\n    uri: /a\n    headers:\n      X-Case: '%d'\n      X-Step: a\n      X-Resp: %d/%s/%s\n    postprocessors:\n",
			i, i, vt.Int(r["status"]), vt.Str(r["hdr"]), body)
		for _, p := range vt.List(c["chain"]) {
			b.WriteString(procYAML(vt.Map(p), len(docs.bodies[body])))
		}
		fmt.Fprintf(&b, "  - name: b%d\n    method: GET\n    uri: /b\n    headers:\n      X-Case: '%d'\n      X-Step: b\n", i, i)
		for _, v := range []string{"v1", "v2", "v3"} {
			fmt.Fprintf(&b, "      X-%s: '[{{.request.a%d.postprocessor.%s}}]'\n", strings.ToUpper(v), i, v)
		}
	}
	b.WriteString("scenarios:\n")
	for _, c := range cases {
		i := vt.Int(c["id"])
		if vt.Str(c["kind"]) == "fn" {
			fmt.Fprintf(&b, "  - name: c%d\n    weight: 1\n    requests: [a%d]\n", i, i)
		} else {
			fmt.Fprintf(&b, "  - name: c%d\n    weight: 1\n    requests: [a%d, b%d]\n", i, i, i)
		}
	}
	return b.String()
}

// ---------------------------------------------------------------- target

type procSeen struct {
	AReqs int                 `json:"areqs"`
	BReqs int                 `json:"breqs"`
	Vals  map[string][]string `json:"vals"`
	PVal  []string            `json:"pval"`
}

type procTarget struct {
	ln   net.Listener
	srv  *http.Server
	docs procDocs
	mu   sync.Mutex
	seen map[string]*procSeen
}

func inner(s string) []string {
	if len(s) >= 2 && s[0] == '[' && s[len(s)-1] == ']' {
		return toChars(s[1 : len(s)-1])
	}
	return toChars("!" + s) // not in the form the payload renders it: recorded as it came
}

func newProcTarget(docs procDocs) *procTarget {
	ln, err := net.Listen("tcp", "127.0.0.1:0")
	if err != nil {
		panic(err)
	}
	t := &procTarget{ln: ln, docs: docs, seen: map[string]*procSeen{}}
	t.srv = &http.Server{Handler: http.HandlerFunc(t.handle)}
	go t.srv.Serve(ln)
	return t
}

func (t *procTarget) get(id string) *procSeen {
	s, ok := t.seen[id]
	if !ok {
		s = &procSeen{Vals: map[string][]string{"v1": {}, "v2": {}, "v3": {}}, PVal: []string{}}
		t.seen[id] = s
	}
	return s
}

func (t *procTarget) handle(w http.ResponseWriter, r *http.Request) {
	id := r.Header.Get("X-Case")
	t.mu.Lock()
	s := t.get(id)
	if r.Header.Get("X-Step") == "b" {
		s.BReqs++
		for _, v := range []string{"v1", "v2", "v3"} {
			s.Vals[v] = inner(r.Header.Get("X-" + strings.ToUpper(v)))
		}
		t.mu.Unlock()
		w.WriteHeader(200)
		w.Write([]byte("ok"))
		return
	}
	s.AReqs++
	if p := r.Header.Get("X-P"); p != "" {
		s.PVal = inner(p)
	}
	t.mu.Unlock()
	parts := strings.Split(r.Header.Get("X-Resp"), "/")
	status, _ := strconv.Atoi(parts[0])
	body := t.docs.bodies[parts[2]]
	w.Header().Set("Content-Type", t.docs.ctype[parts[2]])
	if h := t.docs.hdr[parts[1]]; h != "" {
		w.Header().Set("X-Tok", h)
	}
	w.Header().Set("Content-Length", strconv.Itoa(len(body)))
	w.WriteHeader(status)
	w.Write([]byte(body))
}

// ---------------------------------------------------------------- runs

type procStep struct {
	N     int  `json:"n"`
	Proto int  `json:"proto"`
	Err   bool `json:"err"`
	Empty bool `json:"empty"`
}

func runProcChunk(idx int, cases []map[string]interface{}, docs procDocs, root string) []map[string]interface{} {
	dir := filepath.Join(root, fmt.Sprintf("p%d", idx))
	if err := os.MkdirAll(dir, 0o755); err != nil {
		panic(err)
	}
	payload := filepath.Join(dir, "payload.yaml")
	if err := os.WriteFile(payload, []byte(procPayload(cases, docs)), 0o644); err != nil {
		panic(err)
	}
	tgt := newProcTarget(docs)
	defer tgt.srv.Close()
	buildErr, runErr := "", ""
	agg := &scnRecAggregator{}
	conf, err := buildEngineConf(poolYAML(fmt.Sprintf("p%d", idx), "http/scenario", "http/scenario", payload, tgt.ln.Addr().String(), len(cases), 1, ""), idx%2 == 1)
	if err != nil {
		buildErr = err.Error()
	} else {
		runErr = scnRunEngine(conf, agg, 300*time.Second)
	}
	stepsA, stepsB := map[string]*procStep{}, map[string]*procStep{}
	for _, s := range agg.Samples() {
		id := strings.TrimPrefix(s.Sc, "c")
		m := stepsA
		if strings.HasPrefix(s.Step, "b") {
			m = stepsB
		}
		st, ok := m[id]
		if !ok {
			st = &procStep{}
			m[id] = st
		}
		st.N++
		st.Proto, st.Err, st.Empty = s.Proto, s.Err, s.Empty
	}
	out := []map[string]interface{}{}
	tgt.mu.Lock()
	defer tgt.mu.Unlock()
	for _, c := range cases {
		id := strconv.Itoa(vt.Int(c["id"]))
		seen := tgt.get(id)
		a, b := stepsA[id], stepsB[id]
		if a == nil {
			a = &procStep{}
		}
		if b == nil {
			b = &procStep{}
		}
		blen := 0
		if vt.Str(c["kind"]) == "post" {
			blen = len(docs.bodies[vt.Str(vt.Map(c["resp"])["body"])])
		}
		out = append(out, map[string]interface{}{"case": c, "obs": map[string]interface{}{
			"a": a, "b": b, "areqs": seen.AReqs, "breqs": seen.BReqs, "vals": seen.Vals, "pval": seen.PVal, "blen": blen,
			"build_err": buildErr, "run_err": runErr, "chunk": idx}})
	}
	return out
}

func scenprocMain(args []string) {
	fs := flag.NewFlagSet("scenproc", flag.ExitOnError)
	in := fs.String("in", "", "cases (ndjson, from TLC, numbered by the check)")
	docsPath := fs.String("docs", "", "the abstract documents (json, from TLC)")
	out := fs.String("out", "", "observations (ndjson)")
	chunks := fs.Int("chunks", 4, "engine runs (the cases are dealt round-robin)")
	fs.Parse(args)
	importAll()
	docs := loadDocs(*docsPath)
	cases := vt.ReadNDJSON(*in)
	w := vt.Create(*out)
	defer w.Close()
	root, err := os.MkdirTemp("", "verif-scenproc-")
	if err != nil {
		panic(err)
	}
	defer os.RemoveAll(root)
	if *chunks > len(cases) {
		*chunks = 1
	}
	parts := make([][]map[string]interface{}, *chunks)
	for i, c := range cases {
		parts[i%*chunks] = append(parts[i%*chunks], c)
	}
	results := make([][]map[string]interface{}, *chunks)
	var wg sync.WaitGroup
	for k := range parts {
		wg.Add(1)
		go func(k int) {
			defer wg.Done()
			results[k] = runProcChunk(k, parts[k], docs, root)
		}(k)
	}
	wg.Wait()
	byID := map[int]map[string]interface{}{}
	for _, rs := range results {
		for _, r := range rs {
			byID[vt.Int(vt.Map(r["case"])["id"])] = r
		}
	}
	for _, c := range cases {
		w.Emit(byID[vt.Int(c["id"])])
	}
}
