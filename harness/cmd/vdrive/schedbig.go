package main

// C02 driver "schedbig": Left() bookkeeping of profiles whose token totals do not fit 32 bits (and of ordinary ones),
// built through the real constructors, a config map and YAML text.  Nothing is drained: construct, read Left(),
// Start, draw a few tokens reading Left() after each, sleep past a short unlimited part, read and draw again.
// It records; TraceLeftBig.tla decides (counts as BigNat limbs: TLC integers are 32 bit).

import (
	"flag"
	"fmt"
	"math/rand"
	"time"

	"github.com/spf13/afero"
	coreimport "github.com/yandex/pandora/core/import"

	"verifharness/internal/vt"
)

func init() { register("schedbig", schedBigMain) }

type sbObs struct {
	Draw bool  `json:"draw"`
	Ok   bool  `json:"ok"`
	T    []int `json:"t"`
	Neg  bool  `json:"neg"`
	V    []int `json:"v"`
}

type sbLine struct {
	Tree ptNode  `json:"tree"`
	Desc string  `json:"desc"`
	Via  string  `json:"via"`
	Err  string  `json:"err"`
	TNeg bool    `json:"tneg"`
	Obs  []sbObs `json:"obs"`
}

func sbLeft(o *sbObs, left int) {
	l := int64(left)
	if l < 0 {
		o.Neg = true
		if l = -l; l < 0 {
			l = 1<<63 - 1
		}
	}
	o.V = vt.Limbs(l)
}

func sbRun(tree ptNode, via string, draws int) (out sbLine) {
	out = sbLine{Tree: tree, Desc: tree.describe(), Via: via, Obs: []sbObs{}}
	defer func() {
		// a panic of the schedule (e.g. "schedule is already started") is an observation, not a driver crash
		if r := recover(); r != nil {
			out.Err = fmt.Sprintf("panic: %v", r)
		}
	}()
	s, err := tree.build(via)
	if err != nil {
		out.Err = err.Error()
		return out
	}
	read := func() {
		o := sbObs{T: []int{}}
		sbLeft(&o, s.Left())
		out.Obs = append(out.Obs, o)
	}
	read() // before Start
	t0 := time.Unix(1700000000, 0)
	if tree.hasUnl() {
		t0 = time.Now() // an unlimited part hands out the wall clock
	}
	s.Start(t0)
	read()
	draw := func() {
		t, ok := s.Next()
		o := sbObs{Draw: true, Ok: ok}
		o.T = relLimbs(t, t0, &out.TNeg)
		sbLeft(&o, s.Left())
		out.Obs = append(out.Obs, o)
	}
	for i := 0; i < draws; i++ {
		draw()
	}
	if d := tree.minUnl(); d > 0 && d < 100*time.Millisecond {
		// sleep past every short unlimited part (they are chained: sleep their number times the longest is not needed,
		// each draw after the sleep moves on to the next part); then read BEFORE drawing: a finished unlimited part
		// makes the total known without any further Next()
		for k := 0; k < 3; k++ {
			time.Sleep(d + 2*time.Millisecond)
			read()
			for i := 0; i < 3; i++ {
				draw()
			}
		}
	}
	return out
}

const sbHour = time.Hour

func sbCatalogue() []ptNode {
	p30, p31, p32, p33 := int64(1)<<30, int64(1)<<31, int64(1)<<32, int64(1)<<33
	return []ptNode{
		// suffix sums that are multiples of 2^32, just below / at / above 2^31 and 2^32
		ptList(ptOnce(1), ptOnce(p30), ptOnce(p30), ptOnce(p30), ptOnce(p30)),
		ptList(ptOnce(2), ptOnce(p31-1)),
		ptList(ptOnce(2), ptOnce(p31)),
		ptList(ptOnce(1), ptOnce(p31), ptOnce(p31)),
		ptList(ptOnce(2), ptOnce(p32-1)),
		ptList(ptOnce(1), ptOnce(p32)),
		ptList(ptOnce(3), ptOnce(p32+1), ptOnce(p32-1)),
		ptList(ptOnce(1), ptOnce(p33), ptOnce(1)),
		ptList(ptOnce(1), ptOnce(int64(1)<<53), ptOnce(int64(1)<<53+1)),
		ptList(ptOnce(2), ptOnce(int64(1)<<61), ptOnce(int64(1)<<61)),
		ptOnce(p32 + 5),
		// the documented shapes at production scale
		ptStep(50000000, 100000000, 10000, 2*sbHour),                  // 3.24e9 tokens
		ptList(ptOnce(1), ptConst(1000000000, sbHour)),                // 1 + 3.6e9
		ptConst(2000000000, 1100*time.Second),                         // one leaf above 2^31
		ptList(ptOnce(1), ptLine(0, 2000000000, sbHour)),              // 1 + 3.6e9 (ramp)
		ptList(ptConst(1000, 2*time.Second), ptConst(1000000000, 3*sbHour), ptLine(2000000000, 0, 2*sbHour)),
		ptList(ptOnce(2), ptStep(100000000, 900000000, 100000, 90*time.Minute)),
		ptList(ptIStep(1, 5, 2, sbHour), ptOnce(p32)),
		ptIStep(3, 1<<30, 1<<29, 10*time.Millisecond), // once(3), pause, once(2^29), pause, once(2^29)
		// nesting (a nested composite's own Left() feeds the outer suffix sums)
		ptList(ptList(ptOnce(1), ptOnce(p31)), ptList(ptOnce(p31), ptList(ptOnce(p32)))),
		ptList(ptOnce(1), ptComposite(ptOnce(p30), ptOnce(p30)), ptComposite(ptOnce(p30), ptOnce(p30))),
		ptComposite(ptOnce(2), ptStep(1000000000, 1000000000, 1, 2*sbHour), ptOnce(7)),
		// unknown totals: an unlimited part that does not finish / that finishes while we watch
		ptList(ptOnce(2), ptUnl(sbHour), ptOnce(p33)),
		ptList(ptOnce(p33), ptUnl(sbHour)),
		ptList(ptUnl(3*time.Millisecond), ptOnce(1), ptOnce(p33)),
		ptList(ptOnce(1), ptUnl(3*time.Millisecond), ptOnce(p32)),
		ptList(ptOnce(1), ptUnl(2*time.Millisecond), ptOnce(2), ptUnl(2*time.Millisecond), ptOnce(p32), ptOnce(p32)),
		ptList(ptOnce(0), ptUnl(3*time.Millisecond), ptOnce(p32)),
		// ordinary sizes (the rule is the same)
		ptList(ptOnce(2), ptConst(1000, 3*time.Second), ptOnce(1)),
		ptList(ptOnce(1), ptOnce(0), ptOnce(0), ptOnce(2)),
		ptIStep(2, 6, 2, 50*time.Millisecond),
		ptList(),
		ptList(ptOnce(3)),
	}
}

func sbRandom(rnd *rand.Rand) ptNode {
	mag := func() int64 {
		e := []uint{29, 30, 31, 32, 33, 40, 52, 53, 60}[rnd.Intn(9)]
		return int64(1)<<e + int64(rnd.Intn(3)-1)
	}
	leaf := func() ptNode {
		switch rnd.Intn(7) {
		case 0:
			return ptOnce(int64(rnd.Intn(3)))
		case 1, 2:
			return ptOnce(mag())
		case 3:
			return ptConst((1+rnd.Intn(2000))*1000000, time.Duration(1+rnd.Intn(5000))*time.Second)
		case 4:
			return ptLine(rnd.Intn(2000)*1000000, (1+rnd.Intn(2000))*1000000, time.Duration(1+rnd.Intn(5000))*time.Second)
		case 5:
			f := (1 + rnd.Intn(500)) * 1000000
			return ptStep(f, f+(1+rnd.Intn(6))*100000000, 100000, time.Duration(1+rnd.Intn(100))*time.Minute)
		}
		to := 1 + rnd.Intn(1<<30)
		return ptIStep(rnd.Intn(3), to, to/(1+rnd.Intn(4))+1, time.Duration(1+rnd.Intn(50))*time.Millisecond) // <= 4 levels
	}
	var kids []ptNode
	kids = append(kids, ptOnce(int64(rnd.Intn(4))))
	for i, n := 0, 1+rnd.Intn(4); i < n; i++ {
		switch {
		case rnd.Intn(6) == 0:
			kids = append(kids, ptList(leaf(), leaf()))
		case rnd.Intn(9) == 0:
			kids = append(kids, ptUnl([]time.Duration{2 * time.Millisecond, sbHour}[rnd.Intn(2)]))
		default:
			kids = append(kids, leaf())
		}
	}
	if rnd.Intn(2) == 0 {
		return ptComposite(kids...)
	}
	return ptList(kids...)
}

func schedBigMain(args []string) {
	fs := flag.NewFlagSet("schedbig", flag.ExitOnError)
	out := fs.String("out", "", "trace file")
	nRand := fs.Int("random", 30, "number of seeded random trees")
	_ = fs.Parse(args)
	coreimport.Import(afero.NewMemMapFs())
	rnd := rand.New(rand.NewSource(vt.Seed()))
	w := vt.Create(*out)
	defer w.Close()
	trees := sbCatalogue()
	for i := 0; i < *nRand; i++ {
		trees = append(trees, sbRandom(rnd))
	}
	vias := []string{"ctor", "config", "yaml"}
	n := 0
	for i, t := range trees {
		// every catalogue tree through every path; random trees through one path each
		if !t.configurable() {
			w.Emit(sbRun(t, "ctor", 8))
			n++
		} else if i < len(sbCatalogue()) {
			for _, via := range vias {
				w.Emit(sbRun(t, via, 8))
				n++
			}
		} else {
			w.Emit(sbRun(t, vias[i%3], 8))
			n++
		}
	}
	fmt.Printf("{\"lines\":%d}\n", n)
}
