package main

// C16: the token alphabet.  ScenarioConfig.tla treats value strings as opaque tokens "T_...";
// this table gives every token its concrete literal.  Any string that is not a token is a plain
// structural string and stands for itself.  The literals are chosen to be hostile to one or the
// other syntax: YAML 1.1 implicit typing (yes, 123, 1e3, null, ~, 010, 0x1F, 1:30, dates), YAML
// indicators (#, ": ", "- ", &, *, !, |, >, %, @, `, ?, {, [), HCL template sequences (${, %{),
// quotes, backslashes, line breaks of every kind, blanks at the ends, unicode, control characters.

import (
	"fmt"
	"sort"
	"strings"
)

var scTokens = map[string]string{
	"T_dq":       `say "hi" and \"bye\"`,
	"T_sq":       `it's 'quoted'`,
	"T_bs":       `back\slash\n C:\dir\`,
	"T_tmpl":     `{{.request.r1.postprocessor.token}}`,
	"T_tmplq":    `Bearer {{ .source.global.host | printf "%q" }}`,
	"T_yes":      `yes`,
	"T_no":       `No`,
	"T_true":     `true`,
	"T_123":      `123`,
	"T_1e3":      `1e3`,
	"T_null":     `null`,
	"T_tilde":    `~`,
	"T_float":    `1.0`,
	"T_oct":      `010`,
	"T_hex":      `0x1F`,
	"T_sexa":     `1:30`,
	"T_date":     `2001-12-14`,
	"T_ml":       "line one\nline two\n",
	"T_ml2":      "first\n\n  indented: yes\nlast # no comment",
	"T_mlind":    "  starts indented\nthen not\n",
	"T_crlf":     "dos\r\nline",
	"T_uni":      "Привет, 世界 ✓ 😀 é",
	"T_dollar":   `${var} and ${unk:x}`,
	"T_dollar2":  `$${escaped} %{if x}%%{y} 100% $`,
	"T_pct":      `100% @home`,
	"T_hash":     `# not a comment`,
	"T_colon":    `key: value`,
	"T_colon2":   `a:b - c :d`,
	"T_dash":     `- item`,
	"T_lead":     `  leading blanks`,
	"T_trail":    `trailing blanks  `,
	"T_empty":    ``,
	"T_space":    ` `,
	"T_brace":    `{not: json}`,
	"T_brack":    `[a, b]`,
	"T_amp":      `&anchor *alias !tag`,
	"T_pipe":     `| literal`,
	"T_gt2":      `> folded`,
	"T_bt":       "`tick` @at",
	"T_q":        `? query=1&x=2`,
	"T_comma":    `a,b, c`,
	"T_heredoc":  `<<EOF`,
	"T_tab":      "tab\there",
	"T_eq":       `= equals`,
	"T_merge":    `<<`,
	"T_ctrl":     "bell\x07 esc\x1b",
	"T_ls":       "sep\u2028nel\u0085bom\ufeff.",
	"T_long":     strings.Repeat("a long value with  double blanks and words, ", 6) + "end",
	"T_mldollar": "price: ${amount}\n%{literal} and $${x}\n",
	"T_json":     `{"login": "{{.request.r1.preprocessor.user.login}}", "pass": "p\"q"}`,
	"T_tmplbody": "{\"user_id\": {{.request.r1.preprocessor.user}}}\n",
	"T_hdrmod":   `Authorization|lower|replace(=,)|substr(6)`,
	"T_xpath":    `//div[@class='data']`,
	"T_nl":       "\n",
	"T_bang":     `!important`,
	"T_at":       `@at %percent`,
	// csv delimiters (the first rune is what the csv reader uses)
	"T_comma1": `,`,
	"T_semi":   `;`,
	"T_tab1":   "\t",
	"T_pipe1":  `|`,
	// documented size operators
	"T_gt":   `>`,
	"T_lt":   `<`,
	"T_eqs":  `=`,
	"T_opeq": `eq`,
	"T_oplt": `lt`,
	"T_opgt": `gt`,
}

var scLiterals = func() map[string]string {
	inv := map[string]string{}
	for k, v := range scTokens {
		if o, dup := inv[v]; dup {
			panic(fmt.Sprintf("scenconfig: tokens %s and %s share a literal", o, k))
		}
		inv[v] = k
	}
	return inv
}()

// lit: token -> literal (plain strings stand for themselves)
func lit(s string) string {
	if strings.HasPrefix(s, "T_") {
		v, ok := scTokens[s]
		if !ok {
			panic(fmt.Sprintf("scenconfig: unknown token %q (spec and harness alphabets differ)", s))
		}
		return v
	}
	return s
}

// tok: literal observed in a decoded structure -> the abstract string.  A literal that is not in the table
// stands for itself, so a mangled value can never look like a token.
func tok(s string) string {
	if k, ok := scLiterals[s]; ok {
		return k
	}
	return s
}

func scTokenNames() []string {
	out := []string{}
	for k := range scTokens {
		out = append(out, k)
	}
	sort.Strings(out)
	return out
}
