package main

// C16 renderers (trusted base): abstract description -> scenario file text, in HCL and in YAML, each in two
// styles.  They follow docs/eng/scenario-http-generator.md, scenario-grpc-generator.md,
// scenario/variable_source.md and scenario/locals.md literally: block and attribute names are the documented
// ones, a field that the description leaves out is not written at all.
//
//   hcl    plain: every string a quoted template literal, map keys quoted
//   hcll   the documented conveniences: two chained `locals` blocks, merge() concat() zipmap() keys() values()
//          element() lookup() coalesce() flatten() reverse() slice() coalescelist(), heredocs for multi-line text
//   yaml   block style, every value string double-quoted
//   yamla  `locals:` with anchors, aliases and merge keys (<<: *x), flow collections, single-quoted strings and
//          literal block scalars where they can hold the value exactly
//
// String escaping is the crux; the rules are implemented once each (hclQuote, hclHeredoc, yamlDQ, yamlSQ,
// yamlBlock) and nowhere else.

import (
	"encoding/json"
	"fmt"
	"os"
	"regexp"
	"strconv"
	"strings"
	"unicode/utf8"
)

// ------------------------------------------------------------------ description (JSON printed by TLC)

type dSize struct {
	Val int    `json:"val"`
	Op  string `json:"op"`
}
type dPairs = [][]string // list of [key, value]
type dSource struct {
	Type      string     `json:"type"`
	Name      string     `json:"name"`
	File      []string   `json:"file"`
	Fields    [][]string `json:"fields"`
	Ifl       []bool     `json:"ifl"`
	Delim     []string   `json:"delim"`
	Variables []dPairs   `json:"variables"`
	Numvars   []dNumvar  `json:"numvars"` // entries of `variables` written as bare numbers
}
type dNumvar struct {
	Key string `json:"key"`
	Val int    `json:"val"`
}
type dPost struct {
	Type    string     `json:"type"`
	Mapping []dPairs   `json:"mapping"`
	Headers []dPairs   `json:"headers"`
	Body    [][]string `json:"body"`
	Payload [][]string `json:"payload"`
	Status  []int      `json:"status"`
	Size    []dSize    `json:"size"`
}
type dPre struct {
	Type    string `json:"type"`
	Mapping dPairs `json:"mapping"`
}
type dRequest struct {
	Name      string   `json:"name"`
	Method    string   `json:"method"`
	URI       string   `json:"uri"`
	Headers   []dPairs `json:"headers"`
	Tag       []string `json:"tag"`
	Body      []string `json:"body"`
	Pre       []dPairs `json:"pre"`
	Templater []string `json:"templater"`
	Posts     []dPost  `json:"posts"`
}
type dCall struct {
	Name     string   `json:"name"`
	Call     string   `json:"call"`
	Payload  string   `json:"payload"`
	Metadata []dPairs `json:"metadata"`
	Tag      []string `json:"tag"`
	Pres     []dPre   `json:"pres"`
	Posts    []dPost  `json:"posts"`
}
type dStep struct {
	Name string `json:"name"`
	Args []int  `json:"args"`
}
type dScenario struct {
	Name   string  `json:"name"`
	Weight []int   `json:"weight"`
	Mwt    []int   `json:"mwt"`
	Steps  []dStep `json:"steps"`
}
type scDesc struct {
	Kind      string      `json:"kind"`
	Sources   []dSource   `json:"sources"`
	Requests  []dRequest  `json:"requests"`
	Calls     []dCall     `json:"calls"`
	Scenarios []dScenario `json:"scenarios"`
}

// request list entry exactly as the documentation writes it
func stepText(s dStep) string {
	switch len(s.Args) {
	case 0:
		return s.Name
	case 1:
		return fmt.Sprintf("%s(%d)", s.Name, s.Args[0])
	default:
		return fmt.Sprintf("%s(%d, %d)", s.Name, s.Args[0], s.Args[1])
	}
}

func stepTexts(sc dScenario) []string {
	out := make([]string, len(sc.Steps))
	for i, s := range sc.Steps {
		out[i] = stepText(s)
	}
	return out
}

// ------------------------------------------------------------------ HCL string syntax

// hclEscTemplate: in quoted literals and in heredocs "${" and "%{" start a template sequence; "$${" and "%%{"
// are the documented escapes for the literal two characters.
func hclEscTemplate(s string) string {
	s = strings.ReplaceAll(s, "${", "$${")
	return strings.ReplaceAll(s, "%{", "%%{")
}

// hclQuote: a quoted template literal for the abstract string a (token or plain).
func hclQuote(a string) string { return `"` + hclQuoteInner(lit(a)) + `"` }

// hclQuoteInner: the literal s as the inside of a quoted template (no surrounding quotes)
func hclQuoteInner(s string) string {
	var b strings.Builder
	for _, r := range s {
		switch {
		case r == '\\':
			b.WriteString(`\\`)
		case r == '"':
			b.WriteString(`\"`)
		case r == '\n':
			b.WriteString(`\n`)
		case r == '\r':
			b.WriteString(`\r`)
		case r == '\t':
			b.WriteString(`\t`)
		case r < 0x20 || r == 0x7f || r == 0x85 || r == 0x2028 || r == 0x2029 || r == 0xfeff:
			fmt.Fprintf(&b, `\u%04x`, r)
		default:
			b.WriteRune(r)
		}
	}
	return hclEscTemplate(b.String())
}

// hclHeredocOK: the value can be written exactly as a heredoc (<<EOT ... EOT): it must end with a line feed
// (a heredoc always does), hold no carriage return / control character, and no line may be the terminator.
func hclHeredocOK(s string) bool {
	if !strings.HasSuffix(s, "\n") || s == "\n" {
		return false
	}
	for _, r := range s {
		if (r < 0x20 && r != '\n' && r != '\t') || r == 0x7f || r == 0x85 || r == 0x2028 || r == 0x2029 || r == 0xfeff {
			return false
		}
	}
	for _, ln := range strings.Split(s, "\n") {
		if strings.TrimSpace(ln) == "EOT" {
			return false
		}
	}
	return true
}

func hclHeredoc(s string) string {
	// odd seeds: the indented form <<-EOT (leading blanks common to all lines are removed), used only when no line is
	// empty or starts with a blank, so that exactly the added indentation is stripped
	if scSeed()%2 == 1 {
		lines := strings.Split(strings.TrimSuffix(s, "\n"), "\n")
		ok := true
		for _, ln := range lines {
			if ln == "" || ln[0] == ' ' || ln[0] == '\t' {
				ok = false
			}
		}
		if ok {
			return "<<-EOT\n      " + strings.Join(strings.Split(hclEscTemplate(strings.TrimSuffix(s, "\n")), "\n"), "\n      ") + "\n      EOT"
		}
	}
	return "<<EOT\n" + hclEscTemplate(s) + "EOT"
}

func scSeed() int {
	n, _ := strconv.Atoi(os.Getenv("VERIF_SEED"))
	if n < 0 {
		n = -n
	}
	return n
}

// hclStrL: string expression in the `hcll` style (heredoc where exact, else quoted).  Only for places where the
// expression ends its line (attribute values, entries of multi-line objects): the closing marker must stand alone.
func hclStrL(a string) string {
	if s := lit(a); hclHeredocOK(s) {
		return hclHeredoc(s)
	}
	return hclQuote(a)
}

var identRe = regexp.MustCompile(`^[A-Za-z_][A-Za-z0-9_-]*$`)

// hclKeyL: object key in the `hcll` style: bare identifier as in the documentation (Content-Type = ...) when it is one
func hclKeyL(a string) string {
	if s := lit(a); identRe.MatchString(s) && s != "null" && s != "true" && s != "false" {
		return s
	}
	return hclQuote(a)
}

func hclObj(ps dPairs, ind string, key func(string) string, val func(string) string) string {
	if len(ps) == 0 {
		return "{}"
	}
	var b strings.Builder
	b.WriteString("{\n")
	for _, p := range ps {
		b.WriteString(ind + "  " + key(p[0]) + " = " + val(p[1]) + "\n")
	}
	b.WriteString(ind + "}")
	return b.String()
}

func hclList(xs []string, q func(string) string) string {
	ys := make([]string, len(xs))
	for i, x := range xs {
		ys[i] = q(x)
	}
	return "[" + strings.Join(ys, ", ") + "]"
}

// ------------------------------------------------------------------ HCL, plain style

func renderHCL(d scDesc) string {
	var b strings.Builder
	w := func(f string, a ...interface{}) { fmt.Fprintf(&b, f, a...) }
	q := hclQuote
	obj := func(ps dPairs, ind string) string { return hclObj(ps, ind, q, q) }
	for _, s := range d.Sources {
		w("variable_source %s %s {\n", q(s.Name), q(s.Type))
		if len(s.File) == 1 {
			w("  file = %s\n", q(s.File[0]))
		}
		if len(s.Fields) == 1 {
			w("  fields = %s\n", hclList(s.Fields[0], q))
		}
		if len(s.Ifl) == 1 {
			w("  ignore_first_line = %v\n", s.Ifl[0])
		}
		if len(s.Delim) == 1 {
			w("  delimiter = %s\n", q(s.Delim[0]))
		}
		if len(s.Variables) == 1 {
			if len(s.Numvars) == 0 {
				w("  variables = %s\n", obj(s.Variables[0], "  "))
			} else {
				// the documentation's own example: port = 8090
				w("  variables = {\n")
				for _, p := range s.Variables[0] {
					w("    %s = %s\n", q(p[0]), q(p[1]))
				}
				for _, nv := range s.Numvars {
					w("    %s = %d\n", nv.Key, nv.Val)
				}
				w("  }\n")
			}
		}
		w("}\n")
	}
	for _, r := range d.Requests {
		w("request %s {\n", q(r.Name))
		w("  method = %s\n", q(r.Method))
		w("  uri = %s\n", q(r.URI))
		if len(r.Headers) == 1 {
			w("  headers = %s\n", obj(r.Headers[0], "  "))
		}
		if len(r.Tag) == 1 {
			w("  tag = %s\n", q(r.Tag[0]))
		}
		if len(r.Body) == 1 {
			w("  body = %s\n", q(r.Body[0]))
		}
		if len(r.Templater) == 1 {
			w("  templater {\n    type = %s\n  }\n", q(r.Templater[0]))
		}
		if len(r.Pre) == 1 {
			w("  preprocessor {\n    mapping = %s\n  }\n", obj(r.Pre[0], "    "))
		}
		for _, p := range r.Posts {
			w("  postprocessor %s {\n", q(p.Type))
			if len(p.Mapping) == 1 {
				w("    mapping = %s\n", obj(p.Mapping[0], "    "))
			}
			if len(p.Headers) == 1 {
				w("    headers = %s\n", obj(p.Headers[0], "    "))
			}
			if len(p.Body) == 1 {
				w("    body = %s\n", hclList(p.Body[0], q))
			}
			if len(p.Status) == 1 {
				w("    status_code = %d\n", p.Status[0])
			}
			if len(p.Size) == 1 {
				w("    size {\n      val = %d\n      op = %s\n    }\n", p.Size[0].Val, q(p.Size[0].Op))
			}
			w("  }\n")
		}
		w("}\n")
	}
	for _, c := range d.Calls {
		w("call %s {\n", q(c.Name))
		w("  call = %s\n", q(c.Call))
		if len(c.Tag) == 1 {
			w("  tag = %s\n", q(c.Tag[0]))
		}
		if len(c.Metadata) == 1 {
			w("  metadata = %s\n", obj(c.Metadata[0], "  "))
		}
		for _, p := range c.Pres {
			w("  preprocessor %s {\n    mapping = %s\n  }\n", q(p.Type), obj(p.Mapping, "    "))
		}
		w("  payload = %s\n", q(c.Payload))
		for _, p := range c.Posts {
			w("  postprocessor %s {\n", q(p.Type))
			if len(p.Payload) == 1 {
				w("    payload = %s\n", hclList(p.Payload[0], q))
			}
			if len(p.Status) == 1 {
				w("    status_code = %d\n", p.Status[0])
			}
			w("  }\n")
		}
		w("}\n")
	}
	for _, sc := range d.Scenarios {
		w("scenario %s {\n", q(sc.Name))
		if len(sc.Weight) == 1 {
			w("  weight = %d\n", sc.Weight[0])
		}
		if len(sc.Mwt) == 1 {
			w("  min_waiting_time = %d\n", sc.Mwt[0])
		}
		w("  requests = %s\n", hclList(stepTexts(sc), q))
		w("}\n")
	}
	return b.String()
}

// ------------------------------------------------------------------ YAML string syntax

// yamlDQ: double-quoted scalar (YAML 1.1 escapes); exact for every string.
func yamlDQ(a string) string {
	s := lit(a)
	var b strings.Builder
	b.WriteByte('"')
	for _, r := range s {
		switch {
		case r == '\\':
			b.WriteString(`\\`)
		case r == '"':
			b.WriteString(`\"`)
		case r == '\n':
			b.WriteString(`\n`)
		case r == '\r':
			b.WriteString(`\r`)
		case r == '\t':
			b.WriteString(`\t`)
		case r < 0x20 || r == 0x7f:
			fmt.Fprintf(&b, `\x%02x`, r)
		case r == 0x85 || r == 0xa0 || r == 0x2028 || r == 0x2029 || r == 0xfeff:
			fmt.Fprintf(&b, `\u%04x`, r)
		default:
			b.WriteRune(r)
		}
	}
	b.WriteByte('"')
	return b.String()
}

func yamlSpecial(r rune) bool {
	return (r < 0x20 && r != '\t') || r == 0x7f || r == 0x85 || r == 0x2028 || r == 0x2029 || r == 0xfeff
}

// yamlSQ: single-quoted scalar where it holds the value exactly (one line, printable), else double-quoted
func yamlSQ(a string) string {
	s := lit(a)
	for _, r := range s {
		if yamlSpecial(r) || r == '\n' || r == '\t' {
			return yamlDQ(a)
		}
	}
	return "'" + strings.ReplaceAll(s, "'", "''") + "'"
}

// yamlBlockOK: the value can be written exactly as a literal block scalar ("|" or "|-")
func yamlBlockOK(s string) bool {
	if !strings.Contains(s, "\n") || strings.HasPrefix(s, "\n") || strings.HasPrefix(s, " ") || strings.HasPrefix(s, "\t") ||
		strings.HasSuffix(s, "\n\n") || !utf8.ValidString(s) {
		return false
	}
	for _, r := range s {
		if r != '\n' && (yamlSpecial(r) || r == '\t') {
			return false
		}
	}
	for _, ln := range strings.Split(strings.TrimSuffix(s, "\n"), "\n") {
		if strings.TrimRight(ln, " ") != ln && strings.TrimSpace(ln) == "" {
			return false // a line of blanks only: keep out of the doubtful corner
		}
	}
	return true
}

// yamlVal: value in the `yamla` style, for a mapping value or sequence entry whose parent is indented by `ind`
func yamlValA(a string, ind string) string {
	s := lit(a)
	if yamlBlockOK(s) {
		head := "|"
		body := s
		if !strings.HasSuffix(s, "\n") {
			head = "|-"
		} else {
			body = strings.TrimSuffix(s, "\n")
		}
		var b strings.Builder
		b.WriteString(head + "\n")
		for i, ln := range strings.Split(body, "\n") {
			if i > 0 {
				b.WriteString("\n")
			}
			if ln != "" {
				b.WriteString(ind + "  " + ln)
			}
		}
		return b.String()
	}
	return yamlSQ(a)
}

var yamlPlainRe = regexp.MustCompile(`^[A-Za-z/$.][A-Za-z0-9_./$-]*$`)
var yamlWords = map[string]bool{"y": true, "n": true, "yes": true, "no": true, "on": true, "off": true, "true": true,
	"false": true, "null": true}

// yamlPlain: plain scalar as the documentation writes structural strings (method: POST, type: var/jsonpath) --
// only for plain (non-token) strings of a conservative shape that YAML 1.1 cannot read as anything but a string
func yamlPlain(a string) string {
	if !strings.HasPrefix(a, "T_") && yamlPlainRe.MatchString(a) && !yamlWords[strings.ToLower(a)] && !strings.HasPrefix(a, ".") {
		return a
	}
	return yamlSQ(a)
}

// ------------------------------------------------------------------ YAML, plain block style

func yamlMap(b *strings.Builder, key string, ps dPairs, ind string) {
	if len(ps) == 0 {
		fmt.Fprintf(b, "%s%s: {}\n", ind, key)
		return
	}
	fmt.Fprintf(b, "%s%s:\n", ind, key)
	for _, p := range ps {
		fmt.Fprintf(b, "%s  %s: %s\n", ind, yamlDQ(p[0]), yamlDQ(p[1]))
	}
}

func yamlSeq(b *strings.Builder, key string, xs []string, ind string) {
	if len(xs) == 0 {
		fmt.Fprintf(b, "%s%s: []\n", ind, key)
		return
	}
	fmt.Fprintf(b, "%s%s:\n", ind, key)
	for _, x := range xs {
		fmt.Fprintf(b, "%s  - %s\n", ind, yamlDQ(x))
	}
}

func renderYAML(d scDesc) string {
	var b strings.Builder
	w := func(f string, a ...interface{}) { fmt.Fprintf(&b, f, a...) }
	q := yamlDQ
	if len(d.Sources) > 0 {
		w("variable_sources:\n")
	}
	for _, s := range d.Sources {
		w("  - type: %s\n    name: %s\n", q(s.Type), q(s.Name))
		if len(s.File) == 1 {
			w("    file: %s\n", q(s.File[0]))
		}
		if len(s.Fields) == 1 {
			yamlSeq(&b, "fields", s.Fields[0], "    ")
		}
		if len(s.Ifl) == 1 {
			w("    ignore_first_line: %v\n", s.Ifl[0])
		}
		if len(s.Delim) == 1 {
			w("    delimiter: %s\n", q(s.Delim[0]))
		}
		if len(s.Variables) == 1 {
			if len(s.Numvars) > 0 && len(s.Variables[0]) == 0 {
				w("    variables:\n")
			} else {
				yamlMap(&b, "variables", s.Variables[0], "    ")
			}
			for _, nv := range s.Numvars {
				w("      %s: %d\n", nv.Key, nv.Val)
			}
		}
	}
	if len(d.Requests) > 0 {
		w("requests:\n")
	}
	for _, r := range d.Requests {
		w("  - name: %s\n    method: %s\n    uri: %s\n", q(r.Name), q(r.Method), q(r.URI))
		if len(r.Headers) == 1 {
			yamlMap(&b, "headers", r.Headers[0], "    ")
		}
		if len(r.Tag) == 1 {
			w("    tag: %s\n", q(r.Tag[0]))
		}
		if len(r.Body) == 1 {
			w("    body: %s\n", q(r.Body[0]))
		}
		if len(r.Templater) == 1 {
			w("    templater:\n      type: %s\n", q(r.Templater[0]))
		}
		if len(r.Pre) == 1 {
			w("    preprocessor:\n")
			yamlMap(&b, "mapping", r.Pre[0], "      ")
		}
		if len(r.Posts) > 0 {
			w("    postprocessors:\n")
		}
		for _, p := range r.Posts {
			w("      - type: %s\n", q(p.Type))
			if len(p.Mapping) == 1 {
				yamlMap(&b, "mapping", p.Mapping[0], "        ")
			}
			if len(p.Headers) == 1 {
				yamlMap(&b, "headers", p.Headers[0], "        ")
			}
			if len(p.Body) == 1 {
				yamlSeq(&b, "body", p.Body[0], "        ")
			}
			if len(p.Status) == 1 {
				w("        status_code: %d\n", p.Status[0])
			}
			if len(p.Size) == 1 {
				w("        size:\n          val: %d\n          op: %s\n", p.Size[0].Val, q(p.Size[0].Op))
			}
		}
	}
	if len(d.Calls) > 0 {
		w("calls:\n")
	}
	for _, c := range d.Calls {
		w("  - name: %s\n    call: %s\n", q(c.Name), q(c.Call))
		if len(c.Tag) == 1 {
			w("    tag: %s\n", q(c.Tag[0]))
		}
		if len(c.Metadata) == 1 {
			yamlMap(&b, "metadata", c.Metadata[0], "    ")
		}
		if len(c.Pres) > 0 {
			w("    preprocessors:\n")
		}
		for _, p := range c.Pres {
			w("      - type: %s\n", q(p.Type))
			yamlMap(&b, "mapping", p.Mapping, "        ")
		}
		w("    payload: %s\n", q(c.Payload))
		if len(c.Posts) > 0 {
			w("    postprocessors:\n")
		}
		for _, p := range c.Posts {
			w("      - type: %s\n", q(p.Type))
			if len(p.Payload) == 1 {
				yamlSeq(&b, "payload", p.Payload[0], "        ")
			}
			if len(p.Status) == 1 {
				w("        status_code: %d\n", p.Status[0])
			}
		}
	}
	w("scenarios:\n")
	for _, sc := range d.Scenarios {
		w("  - name: %s\n", q(sc.Name))
		if len(sc.Weight) == 1 {
			w("    weight: %d\n", sc.Weight[0])
		}
		if len(sc.Mwt) == 1 {
			w("    min_waiting_time: %d\n", sc.Mwt[0])
		}
		yamlSeq(&b, "requests", stepTexts(sc), "    ")
	}
	return b.String()
}

// ------------------------------------------------------------------ YAML with locals / anchors / flow style

type yamlLocals struct {
	lines []string
	n     int
}

// anchorMap defines `ps` under locals with an anchor and returns the anchor name
func (l *yamlLocals) anchorMap(ps dPairs) string {
	l.n++
	name := fmt.Sprintf("m%d", l.n)
	l.lines = append(l.lines, fmt.Sprintf("  %s: &%s", name, name))
	for _, p := range ps {
		l.lines = append(l.lines, "    "+yamlSQ(p[0])+": "+yamlValA(p[1], "    "))
	}
	return name
}

// anchorStr defines one string under locals with an anchor
func (l *yamlLocals) anchorStr(a string) string {
	l.n++
	name := fmt.Sprintf("s%d", l.n)
	l.lines = append(l.lines, fmt.Sprintf("  %s: &%s %s", name, name, yamlValA(a, "  ")))
	return name
}

// mapA: mapping in the documented style: the first entry comes from locals through a merge key
func (l *yamlLocals) mapA(b *strings.Builder, key string, ps dPairs, ind string) {
	switch len(ps) {
	case 0:
		fmt.Fprintf(b, "%s%s: {}\n", ind, key)
	case 1:
		// flow mapping
		fmt.Fprintf(b, "%s%s: { %s: %s }\n", ind, key, yamlSQ(ps[0][0]), yamlSQ(ps[0][1]))
	default:
		a := l.anchorMap(ps[:1])
		fmt.Fprintf(b, "%s%s:\n%s  <<: *%s\n", ind, key, ind, a)
		for _, p := range ps[1:] {
			fmt.Fprintf(b, "%s  %s: %s\n", ind, yamlSQ(p[0]), yamlValA(p[1], ind+"  "))
		}
	}
}

func yamlFlowSeq(xs []string) string {
	ys := make([]string, len(xs))
	for i, x := range xs {
		ys[i] = yamlSQ(x)
	}
	return "[ " + strings.Join(ys, ", ") + " ]"
}

func renderYAMLAnchors(d scDesc) string {
	var b strings.Builder
	l := &yamlLocals{}
	w := func(f string, a ...interface{}) { fmt.Fprintf(&b, f, a...) }
	p := yamlPlain
	k := scSeed()
	// every third string value goes through an anchor in locals (which ones rotates with VERIF_SEED)
	val := func(a string, ind string) string {
		k++
		if k%3 == 0 {
			return "*" + l.anchorStr(a)
		}
		return yamlValA(a, ind)
	}
	if len(d.Sources) > 0 {
		w("variable_sources:\n")
	}
	for _, s := range d.Sources {
		w("  - type: %s\n    name: %s\n", p(s.Type), p(s.Name))
		if len(s.File) == 1 {
			w("    file: %s\n", val(s.File[0], "    "))
		}
		if len(s.Fields) == 1 {
			w("    fields: %s\n", yamlFlowSeq(s.Fields[0]))
		}
		if len(s.Ifl) == 1 {
			w("    ignore_first_line: %v\n", s.Ifl[0])
		}
		if len(s.Delim) == 1 {
			w("    delimiter: %s\n", val(s.Delim[0], "    "))
		}
		if len(s.Variables) == 1 {
			if len(s.Numvars) > 0 && len(s.Variables[0]) < 2 {
				w("    variables:\n")
				for _, p := range s.Variables[0] {
					w("      %s: %s\n", yamlSQ(p[0]), yamlSQ(p[1]))
				}
			} else {
				l.mapA(&b, "variables", s.Variables[0], "    ")
			}
			for _, nv := range s.Numvars {
				w("      %s: %d\n", nv.Key, nv.Val)
			}
		}
	}
	if len(d.Requests) > 0 {
		w("requests:\n")
	}
	for _, r := range d.Requests {
		w("  - name: %s\n    uri: %s\n    method: %s\n", p(r.Name), val(r.URI, "    "), val(r.Method, "    "))
		if len(r.Headers) == 1 {
			l.mapA(&b, "headers", r.Headers[0], "    ")
		}
		if len(r.Tag) == 1 {
			w("    tag: %s\n", val(r.Tag[0], "    "))
		}
		if len(r.Body) == 1 {
			w("    body: %s\n", yamlValA(r.Body[0], "    "))
		}
		if len(r.Pre) == 1 {
			w("    preprocessor:\n")
			l.mapA(&b, "mapping", r.Pre[0], "      ")
		}
		if len(r.Templater) == 1 {
			w("    templater: { type: %s }\n", p(r.Templater[0]))
		}
		if len(r.Posts) > 0 {
			w("    postprocessors:\n")
		}
		for _, po := range r.Posts {
			w("      - type: %s\n", p(po.Type))
			if len(po.Mapping) == 1 {
				l.mapA(&b, "mapping", po.Mapping[0], "        ")
			}
			if len(po.Headers) == 1 {
				l.mapA(&b, "headers", po.Headers[0], "        ")
			}
			if len(po.Body) == 1 {
				w("        body: %s\n", yamlFlowSeq(po.Body[0]))
			}
			if len(po.Status) == 1 {
				w("        status_code: %d\n", po.Status[0])
			}
			if len(po.Size) == 1 {
				w("        size: { val: %d, op: %s }\n", po.Size[0].Val, yamlSQ(po.Size[0].Op))
			}
		}
	}
	if len(d.Calls) > 0 {
		w("calls:\n")
	}
	for _, c := range d.Calls {
		w("  - name: %s\n    call: %s\n", p(c.Name), val(c.Call, "    "))
		if len(c.Tag) == 1 {
			w("    tag: %s\n", val(c.Tag[0], "    "))
		}
		if len(c.Metadata) == 1 {
			l.mapA(&b, "metadata", c.Metadata[0], "    ")
		}
		if len(c.Pres) > 0 {
			w("    preprocessors:\n")
		}
		for _, pr := range c.Pres {
			w("      - type: %s\n", p(pr.Type))
			l.mapA(&b, "mapping", pr.Mapping, "        ")
		}
		w("    payload: %s\n", yamlValA(c.Payload, "    "))
		if len(c.Posts) > 0 {
			w("    postprocessors:\n")
		}
		for _, po := range c.Posts {
			w("      - type: %s\n", p(po.Type))
			if len(po.Payload) == 1 {
				w("        payload: %s\n", yamlFlowSeq(po.Payload[0]))
			}
			if len(po.Status) == 1 {
				w("        status_code: %d\n", po.Status[0])
			}
		}
	}
	w("scenarios:\n")
	for _, sc := range d.Scenarios {
		w("  - name: %s\n", p(sc.Name))
		if len(sc.Weight) == 1 {
			w("    weight: %d\n", sc.Weight[0])
		}
		if len(sc.Mwt) == 1 {
			w("    min_waiting_time: %d\n", sc.Mwt[0])
		}
		w("    requests: %s\n", yamlFlowSeq(stepTexts(sc)))
	}
	head := "# scenario \"file\": 'comment' {{not.a.template}} &not *an !anchor\n---\n"
	if len(l.lines) > 0 {
		head += "locals:\n" + strings.Join(l.lines, "\n") + "\n"
	}
	return head + b.String()
}

// ------------------------------------------------------------------ JSON (documented as a supported format)

// renderJSON: the description as a JSON document with the YAML key names (docs: "Supports file extensions hcl, yaml,
// json").  Built as a generic value and marshalled by encoding/json, so the string syntax is right by construction.
func renderJSON(d scDesc) string {
	strs := func(xs []string) []string {
		out := make([]string, len(xs))
		for i, x := range xs {
			out[i] = lit(x)
		}
		return out
	}
	obj := func(ps dPairs) map[string]interface{} {
		out := map[string]interface{}{}
		for _, p := range ps {
			out[lit(p[0])] = lit(p[1])
		}
		return out
	}
	root := map[string]interface{}{}
	var srcs, reqs, calls, scs []interface{}
	for _, s := range d.Sources {
		m := map[string]interface{}{"type": s.Type, "name": s.Name}
		if len(s.File) == 1 {
			m["file"] = lit(s.File[0])
		}
		if len(s.Fields) == 1 {
			m["fields"] = strs(s.Fields[0])
		}
		if len(s.Ifl) == 1 {
			m["ignore_first_line"] = s.Ifl[0]
		}
		if len(s.Delim) == 1 {
			m["delimiter"] = lit(s.Delim[0])
		}
		if len(s.Variables) == 1 {
			vars := obj(s.Variables[0])
			for _, nv := range s.Numvars {
				vars[nv.Key] = nv.Val
			}
			m["variables"] = vars
		}
		srcs = append(srcs, m)
	}
	posts := func(ps []dPost) []interface{} {
		var out []interface{}
		for _, p := range ps {
			m := map[string]interface{}{"type": p.Type}
			if len(p.Mapping) == 1 {
				m["mapping"] = obj(p.Mapping[0])
			}
			if len(p.Headers) == 1 {
				m["headers"] = obj(p.Headers[0])
			}
			if len(p.Body) == 1 {
				m["body"] = strs(p.Body[0])
			}
			if len(p.Payload) == 1 {
				m["payload"] = strs(p.Payload[0])
			}
			if len(p.Status) == 1 {
				m["status_code"] = p.Status[0]
			}
			if len(p.Size) == 1 {
				m["size"] = map[string]interface{}{"val": p.Size[0].Val, "op": lit(p.Size[0].Op)}
			}
			out = append(out, m)
		}
		return out
	}
	for _, r := range d.Requests {
		m := map[string]interface{}{"name": r.Name, "method": lit(r.Method), "uri": lit(r.URI)}
		if len(r.Headers) == 1 {
			m["headers"] = obj(r.Headers[0])
		}
		if len(r.Tag) == 1 {
			m["tag"] = lit(r.Tag[0])
		}
		if len(r.Body) == 1 {
			m["body"] = lit(r.Body[0])
		}
		if len(r.Pre) == 1 {
			m["preprocessor"] = map[string]interface{}{"mapping": obj(r.Pre[0])}
		}
		if len(r.Templater) == 1 {
			m["templater"] = map[string]interface{}{"type": r.Templater[0]}
		}
		if len(r.Posts) > 0 {
			m["postprocessors"] = posts(r.Posts)
		}
		reqs = append(reqs, m)
	}
	for _, c := range d.Calls {
		m := map[string]interface{}{"name": c.Name, "call": lit(c.Call), "payload": lit(c.Payload)}
		if len(c.Tag) == 1 {
			m["tag"] = lit(c.Tag[0])
		}
		if len(c.Metadata) == 1 {
			m["metadata"] = obj(c.Metadata[0])
		}
		if len(c.Pres) > 0 {
			var pres []interface{}
			for _, p := range c.Pres {
				pres = append(pres, map[string]interface{}{"type": p.Type, "mapping": obj(p.Mapping)})
			}
			m["preprocessors"] = pres
		}
		if len(c.Posts) > 0 {
			m["postprocessors"] = posts(c.Posts)
		}
		calls = append(calls, m)
	}
	for _, sc := range d.Scenarios {
		m := map[string]interface{}{"name": sc.Name, "requests": stepTexts(sc)}
		if len(sc.Weight) == 1 {
			m["weight"] = sc.Weight[0]
		}
		if len(sc.Mwt) == 1 {
			m["min_waiting_time"] = sc.Mwt[0]
		}
		scs = append(scs, m)
	}
	if srcs != nil {
		root["variable_sources"] = srcs
	}
	if reqs != nil {
		root["requests"] = reqs
	}
	if calls != nil {
		root["calls"] = calls
	}
	root["scenarios"] = scs
	b, err := json.MarshalIndent(root, "", "  ")
	if err != nil {
		panic(err)
	}
	return string(b) + "\n"
}
