// Shared by `vdrive grpcwire` (C20) and `vdrive isolation` (C11): build ONE instance pool from a
// config map through the registered plugin factories (exactly what the CLI does after viper),
// decorate the gun factory and the aggregator with recorders, run it on the real engine.
package main

import (
	"context"
	"fmt"
	"sync"
	"time"

	"github.com/spf13/afero"
	grpcimport "github.com/yandex/pandora/components/grpc/import"
	phttpimport "github.com/yandex/pandora/components/phttp/import"
	"github.com/yandex/pandora/core"
	"github.com/yandex/pandora/core/aggregator/netsample"
	"github.com/yandex/pandora/core/config"
	pregister "github.com/yandex/pandora/core/register"
	"github.com/yandex/pandora/core/engine"
	coreimport "github.com/yandex/pandora/core/import"
	"github.com/yandex/pandora/lib/monitoring"
	"go.uber.org/zap"
	"verifharness/internal/grpctarget"
)

var importOnce sync.Once

func importPlugins() {
	importOnce.Do(func() {
		fs := afero.NewOsFs()
		coreimport.Import(fs)
		phttpimport.Import(fs)
		grpcimport.Import(fs)
		// a gun for the generic json provider's ammo (*map[string]interface{}): holds the ammo for a moment
		// and reports one sample tagged with the ammo's tag
		pregister.Gun("verif/tag", func() core.Gun { return &tagGun{} })
	})
}

type tagGun struct{ aggr core.Aggregator }

func (g *tagGun) Bind(a core.Aggregator, _ core.GunDeps) error { g.aggr = a; return nil }
func (g *tagGun) Shoot(a core.Ammo) {
	t, _ := (*a.(*map[string]interface{}))["tag"].(string)
	s := netsample.Acquire(t)
	time.Sleep(200 * time.Microsecond)
	s.SetProtoCode(200)
	g.aggr.Report(s)
}

type poolSpec struct {
	Kind     string // gun type: grpc | grpc/scenario | http | http/scenario
	AmmoType string // grpc/json | grpc/scenario | http/json | http/scenario
	AmmoFile string
	Target   string
	Shared   bool
	Inst     int
	Shots    int // > 0: shared `once` schedule with exactly that many tokens; 0: plenty, run ends by end of ammo (passes: 1)
	Result   map[string]interface{}
	// rps-per-instance pools: RPS / Startup are the lists written under `rps:` / `startup:` ([] = one `once` part)
	// Discard: discard_overflow: true, every gun's first shot takes FirstShotDelay (the instances fall >= 2 s behind)
	Discard        bool
	FirstShotDelay time.Duration
	QueueSize      int // generic json provider: ammo-queue-size (0: default)
	Ctx         context.Context // parent context of Engine.Run (nil: background); cancelling it ends the run
	PerInstance bool
	RPS         []interface{}
	Startup     []interface{}
	Clients         int    // shared-client.client-number (0: 2)
	ReflectPort     int    // reflect_port (0: reflection on the target itself)
	Timeout         string // gun timeout ("" = 120s)
	ContinueOnError bool   // grpc/json continueonerror
	MaxAmmoSize     int    // grpc/json maxammosize (0: the provider's default)
	TLS             bool              // gun `tls: true`
	ReflectMetadata map[string]string // gun `reflect_metadata`
	Authority       string            // gun `dial_options.authority`
	NoTimeout       bool              // no `timeout` key at all: the gun's default (15 s) applies
	AfterDecode     func()            // called between config decode (gun constructors run there) and Engine.Run
	// YAMLShape: nested maps as yaml.v2 produces them (map[interface{}]interface{}, the acceptance
	// tests' path) instead of viper's map[string]interface{} (the CLI's path)
	YAMLShape bool
	// Preload: `preload: true` on the (http) ammo provider - the decoded entries are kept and handed out again
	Preload bool
}

func yamlShape(v interface{}) interface{} {
	switch x := v.(type) {
	case map[string]interface{}:
		m := map[interface{}]interface{}{}
		for k, e := range x {
			m[k] = yamlShape(e)
		}
		return m
	case []interface{}:
		out := make([]interface{}, len(x))
		for i, e := range x {
			out[i] = yamlShape(e)
		}
		return out
	}
	return v
}

func (ps poolSpec) configMap() map[string]interface{} {
	gun := map[string]interface{}{"type": ps.Kind, "target": ps.Target}
	if ps.Kind == "grpc" || ps.Kind == "grpc/scenario" {
		gun["timeout"] = "120s" // a loaded machine must not turn a slow call into a deadline
		if ps.Timeout != "" {
			gun["timeout"] = ps.Timeout
		}
		if ps.NoTimeout {
			delete(gun, "timeout")
		}
		if ps.ReflectPort != 0 {
			gun["reflect_port"] = ps.ReflectPort
		}
		if ps.TLS {
			gun["tls"] = true
		}
		if len(ps.ReflectMetadata) > 0 {
			m := map[string]interface{}{}
			for k, v := range ps.ReflectMetadata {
				m[k] = v
			}
			gun["reflect_metadata"] = m
		}
		if ps.Authority != "" {
			gun["dial_options"] = map[string]interface{}{"authority": ps.Authority}
		}
	}
	if ps.Shared {
		n := ps.Clients
		if n == 0 {
			n = 2
		}
		gun["shared-client"] = map[string]interface{}{"enabled": true, "client-number": n}
	}
	ammo := map[string]interface{}{"type": ps.AmmoType, "file": ps.AmmoFile}
	if ps.ContinueOnError {
		ammo["continueonerror"] = true
	}
	if ps.Preload {
		ammo["preload"] = true
	}
	if ps.MaxAmmoSize > 0 {
		ammo["maxammosize"] = ps.MaxAmmoSize
	}
	times := ps.Shots
	if ps.Shots == 0 {
		ammo["passes"] = 1
		times = 1000000
	}
	if ps.Shots < 0 { // unlimited passes; the rps list (ps.RPS) or the context ends the run
		times = 1
	}
	res := ps.Result
	if res == nil {
		res = map[string]interface{}{"type": "discard"}
	}
	pool := map[string]interface{}{
		"id":      "p",
		"gun":     gun,
		"ammo":    ammo,
		"result":  res,
		"rps":     []interface{}{map[string]interface{}{"type": "once", "times": times}},
		"startup": []interface{}{map[string]interface{}{"type": "once", "times": ps.Inst}},
	}
	if len(ps.RPS) > 0 {
		pool["rps"] = ps.RPS
	}
	if len(ps.Startup) > 0 {
		pool["startup"] = ps.Startup
	}
	if ps.PerInstance {
		pool["rps-per-instance"] = true
	}
	if ps.Discard {
		pool["discard_overflow"] = true
	}
	if ps.AmmoType == "json" {
		src := map[string]interface{}{"type": "file", "path": ps.AmmoFile}
		am := map[string]interface{}{"type": "json", "source": src, "passes": 1}
		if ps.QueueSize > 0 {
			am["ammo-queue-size"] = ps.QueueSize
		}
		pool["ammo"] = am
		pool["gun"] = map[string]interface{}{"type": "verif/tag"}
	}
	if ps.YAMLShape {
		return map[string]interface{}{"pools": yamlShape([]interface{}{pool})}
	}
	return map[string]interface{}{"pools": []interface{}{pool}}
}

type engineConf struct {
	Engine engine.Config `config:",squash"`
}

// runPool returns (decodeErr, runErr).
func runPool(rec *grpctarget.Rec, ps poolSpec, limit time.Duration) (error, error) {
	importPlugins()
	var conf engineConf
	if err := config.DecodeAndValidate(ps.configMap(), &conf); err != nil {
		return err, nil
	}
	if len(conf.Engine.Pools) != 1 {
		return fmt.Errorf("decoded %d pools", len(conf.Engine.Pools)), nil
	}
	p := &conf.Engine.Pools[0]
	if ps.AfterDecode != nil {
		ps.AfterDecode()
	}
	grpctarget.FirstShotDelay = ps.FirstShotDelay
	p.Provider = &grpctarget.RecProvider{Inner: p.Provider, Rec: rec}
	p.NewGun = grpctarget.WrapGunFactory(rec, p.NewGun)
	p.Aggregator = &grpctarget.RecAggregator{Inner: p.Aggregator, Rec: rec}
	m := engine.Metrics{Request: &monitoring.Counter{}, Response: &monitoring.Counter{},
		InstanceStart: &monitoring.Counter{}, InstanceFinish: &monitoring.Counter{}}
	e := engine.New(zap.NewNop(), m, conf.Engine)
	parent := ps.Ctx
	if parent == nil {
		parent = context.Background()
	}
	ctx, cancel := context.WithTimeout(parent, limit)
	defer cancel()
	err := e.Run(ctx)
	cancel()
	e.Wait()
	return nil, err
}
