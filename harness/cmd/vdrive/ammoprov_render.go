package main

// C08 driver, part 1: renderers (abstract cell -> ammo file bytes + provider config map) and the
// projection (acquired ammo -> index of the file entry it came from).  Trusted base of the check:
// written to be obviously faithful to docs/eng/providers.md; well-formed files only.

import (
	"encoding/json"
	"fmt"
	"hash/fnv"
	"io"
	"sort"
	"strings"

	"github.com/spf13/afero"
	grpcscn "github.com/yandex/pandora/components/guns/grpc/scenario"
	httpscn "github.com/yandex/pandora/components/guns/http_scenario"
	grpcammo "github.com/yandex/pandora/components/providers/grpc"
	"github.com/yandex/pandora/core"
	"github.com/yandex/pandora/core/aggregator/netsample"

	"net/http"
)

// apCase is one cell of the matrix as exported by TLC (AmmoProviderMC!CaseOf).  The driver uses the
// cell coordinates and the two run parameters stop / cap; it never looks at the expected values.
type apCase struct {
	ID      int    `json:"id"`
	Kind    string `json:"kind"`
	Preload bool   `json:"preload"`
	Limit   int    `json:"limit"`
	Passes  int    `json:"passes"`
	W       []int  `json:"w"`
	NC      int    `json:"nc"`
	Cut     int    `json:"cut"`
	Stop    int    `json:"stop"` // consumers stop taking and the run is cancelled after this many items
	Cap     int    `json:"cap"`  // RPS tokens of the engine run
	// computed by TLC with the cell (AmmoProviderMC!CaseBody); only used to pick the cells of the noseek fault
	Entries  int  `json:"entries"`
	Bounded  bool `json:"bounded"`
	Expected int  `json:"expected"`
}

func apEntryName(j int) string { return fmt.Sprintf("e%d", j+1) }

// apLayout: variations of the rendered file that must not change anything the property talks about.
type apLayout struct {
	NoFinalNL bool // the file does not end with a newline
	Big       bool // every entry carries ~5 KB of padding: files exceed the 4 KB bufio.Reader / (with 40 entries) 64 KB scanner buffers
	Rel       bool // the config names the file by a path relative to the working directory (OS fs only)
	// Oversize > 0: entry OverAt is that many bytes long - longer than bufio.MaxScanTokenSize (64 KiB) - and, with
	// RaiseOpt, the provider's size option (`maxammosize`) is set to 1 MiB, which makes such an entry legal.
	// Without RaiseOpt (grpc/json only) the entry is over the default limit: the provider must fail cleanly.
	Oversize int
	OverAt   int
	RaiseOpt bool
	Hdr      bool // in-file header lines and blank lines between the entries (uri, uris, uripost); `headers:` option (HTTP kinds)
	SmallBuf bool // generic json: `buffer-size` at its minimum, so entries straddle the read buffer
}

func (l apLayout) String() string {
	s := "std"
	if l.Big {
		s = "big"
	}
	if l.NoFinalNL {
		s += "+nonl"
	}
	if l.Rel {
		s += "+rel"
	}
	if l.Oversize > 0 {
		s += fmt.Sprintf("+over%d@%d", l.Oversize, l.OverAt+1)
		if !l.RaiseOpt {
			s += "-noopt"
		}
	}
	if l.Hdr {
		s += "+hdr"
	}
	if l.SmallBuf {
		s += "+smallbuf"
	}
	return s
}

// apOversizeKind: kinds whose format can carry an entry of arbitrary size (uri lines and scenario files cannot)
func apOversizeKind(k string) bool {
	switch k {
	case "raw", "uripost", "jsonline", "jsonarray", "grpcjson", "json":
		return true
	}
	return false
}

var apPad = strings.Repeat("0123456789abcdef", 320) // 5120 bytes, no newline, URL- and JSON-safe

// apRender writes the ammo file of the cell into fs (directory dir) and returns the provider config
// (string-keyed map) and the path of the file written ("" for inline uris).
func apRender(fs afero.Fs, c apCase, dir string, lay apLayout) (map[string]interface{}, string, error) {
	n := len(c.W)
	var b strings.Builder
	conf := map[string]interface{}{"limit": c.Limit, "passes": c.Passes}
	name := fmt.Sprintf("c%d", c.ID)
	padOf := func(j int) string {
		if lay.Oversize > 0 && j == lay.OverAt {
			return strings.Repeat(apPad, lay.Oversize/len(apPad)+1)[:lay.Oversize]
		}
		if lay.Big {
			return apPad
		}
		return ""
	}
	qpadOf := func(j int) string {
		if lay.Big {
			return "?pad=" + apPad
		}
		return ""
	}
	jpadOf := func(j int) string {
		if p := padOf(j); p != "" {
			return `,"pad":"` + p + `"`
		}
		return ""
	}
	// header / blank lines between the entries: no entries, whatever the pass
	sepOf := func(j int) string {
		if !lay.Hdr {
			return ""
		}
		if j == 0 {
			return "[X-H: hv]\n"
		}
		return "\n[X-H2: hv" + fmt.Sprint(j) + "]\n"
	}
	if lay.Oversize > 0 && lay.RaiseOpt && c.Kind != "json" {
		conf["maxammosize"] = 1 << 20
	}
	if lay.Hdr && c.Kind != "grpcjson" && c.Kind != "json" && c.Kind != "httpscn" && c.Kind != "grpcscn" {
		conf["headers"] = []interface{}{"[X-Cfg: cv]"}
	}
	if lay.SmallBuf && c.Kind == "json" {
		conf["buffer-size"] = "5kb"
	}
	switch c.Kind {
	case "uri":
		conf["type"] = "uri"
		for j := 0; j < n; j++ {
			fmt.Fprintf(&b, "%s/%s%s %s\n", sepOf(j), apEntryName(j), qpadOf(j), apEntryName(j))
		}
	case "uris":
		conf["type"] = "uri"
		uris := []interface{}{}
		for j := 0; j < n; j++ {
			if lay.Hdr {
				uris = append(uris, "[X-H: hv"+fmt.Sprint(j)+"]")
			}
			uris = append(uris, fmt.Sprintf("/%s %s", apEntryName(j), apEntryName(j)))
		}
		conf["uris"] = uris
	case "raw":
		conf["type"] = "raw"
		for j := 0; j < n; j++ {
			req := fmt.Sprintf("GET /%s HTTP/1.1\r\nHost: h.example\r\n\r\n", apEntryName(j))
			if body := padOf(j); body != "" {
				req = fmt.Sprintf("POST /%s HTTP/1.1\r\nHost: h.example\r\nContent-Length: %d\r\n\r\n%s", apEntryName(j), len(body), body)
			}
			fmt.Fprintf(&b, "%d %s\n%s\n", len(req), apEntryName(j), req)
		}
	case "uripost":
		conf["type"] = "uripost"
		for j := 0; j < n; j++ {
			body := fmt.Sprintf("body-%d%s", j+1, padOf(j))
			fmt.Fprintf(&b, "%s%d /%s %s\n%s\n", sepOf(j), len(body), apEntryName(j), apEntryName(j), body)
		}
	case "jsonline":
		conf["type"] = "http/json"
		for j := 0; j < n; j++ {
			fmt.Fprintf(&b, `{"host":"h.example","method":"GET","uri":"/%s","tag":"%s","body":"b%s"}`+"\n", apEntryName(j), apEntryName(j), padOf(j))
		}
	case "jsonarray":
		conf["type"] = "http/json"
		b.WriteString("[\n")
		for j := 0; j < n; j++ {
			sep := ","
			if j == n-1 {
				sep = ""
			}
			fmt.Fprintf(&b, `  {"host":"h.example","method":"GET","uri":"/%s","tag":"%s","body":"b%s"}%s`+"\n", apEntryName(j), apEntryName(j), padOf(j), sep)
		}
		b.WriteString("]\n")
	case "grpcjson":
		conf["type"] = "grpc/json"
		for j := 0; j < n; j++ {
			fmt.Fprintf(&b, `{"tag":"%s","call":"target.TargetService.Hello","payload":{"k":%d%s}}`+"\n", apEntryName(j), j+1, jpadOf(j))
		}
	case "httpscn":
		conf["type"] = "http/scenario"
		name += ".yaml"
		b.WriteString("requests:\n  - name: r1\n    method: GET\n    uri: /r1\n    tag: r1\nscenarios:\n")
		for j := 0; j < n; j++ {
			fmt.Fprintf(&b, "  - name: %s\n    weight: %d\n    min_waiting_time: 0\n    requests:\n      - r1(1)\n", apEntryName(j), c.W[j])
		}
	case "grpcscn":
		conf["type"] = "grpc/scenario"
		name += ".yaml"
		b.WriteString("calls:\n  - name: r1\n    tag: r1\n    call: target.TargetService.Hello\n    payload: '{}'\nscenarios:\n")
		for j := 0; j < n; j++ {
			fmt.Fprintf(&b, "  - name: %s\n    weight: %d\n    min_waiting_time: 0\n    requests:\n      - r1(1)\n", apEntryName(j), c.W[j])
		}
	case "json":
		conf["type"] = "json"
		for j := 0; j < n; j++ {
			fmt.Fprintf(&b, `{"id":"%s","n":%d%s}`+"\n", apEntryName(j), j+1, jpadOf(j))
		}
	default:
		return nil, "", fmt.Errorf("unknown kind %q", c.Kind)
	}
	written := ""
	if c.Kind != "uris" {
		data := b.String()
		if lay.NoFinalNL {
			data = strings.TrimSuffix(data, "\n") // exactly one
		}
		written = dir + "/" + name
		if err := afero.WriteFile(fs, written, []byte(data), 0o644); err != nil {
			return nil, "", err
		}
		path := written
		if lay.Rel {
			path = name // the process works in dir
		}
		if c.Kind == "json" {
			conf["source"] = map[string]interface{}{"type": "file", "path": path}
		} else {
			conf["file"] = path
		}
	}
	if c.Preload {
		conf["preload"] = true
	}
	return conf, written, nil
}

// apYAMLShape converts a string-keyed config tree into what yaml.v2 produces
// (map[interface{}]interface{}): both shapes reach pluginconfig in production.
func apYAMLShape(v interface{}) interface{} {
	switch x := v.(type) {
	case map[string]interface{}:
		m := map[interface{}]interface{}{}
		for k, e := range x {
			m[k] = apYAMLShape(e)
		}
		return m
	case []interface{}:
		out := make([]interface{}, len(x))
		for i, e := range x {
			out[i] = apYAMLShape(e)
		}
		return out
	}
	return v
}

type apHTTPAmmo interface {
	Request() (*http.Request, *netsample.Sample)
}

// apProject maps an acquired ammo to the index (0-based) of the file entry it was made from (-1 if unknown) and a
// fingerprint of everything a gun would see of it: the same entry must look the same in every pass.
func apProject(a core.Ammo, n int) (int, uint64) {
	name := ""
	h := fnv.New64a()
	switch x := a.(type) {
	case apHTTPAmmo:
		req, _ := x.Request()
		if req != nil && req.URL != nil {
			name = strings.TrimPrefix(req.URL.Path, "/")
			fmt.Fprintf(h, "%s|%s|%s|", req.Method, req.URL.String(), req.Host)
			keys := make([]string, 0, len(req.Header))
			for k := range req.Header {
				keys = append(keys, k)
			}
			sort.Strings(keys)
			for _, k := range keys {
				fmt.Fprintf(h, "%s=%q;", k, req.Header[k])
			}
			if req.Body != nil {
				nb, _ := io.Copy(h, req.Body)
				fmt.Fprintf(h, "|%d", nb)
			}
		}
	case *grpcammo.Ammo:
		name = x.Tag
		pl, _ := json.Marshal(x.Payload)
		md, _ := json.Marshal(x.Metadata)
		fmt.Fprintf(h, "%s|%s|%s|%s", x.Tag, x.Call, md, pl)
	case *httpscn.Scenario:
		name = x.Name
		fmt.Fprintf(h, "%s|%d|%v", x.Name, len(x.Requests), x.MinWaitingTime)
	case *grpcscn.Scenario:
		name = x.Name
		fmt.Fprintf(h, "%s|%d|%v", x.Name, len(x.Calls), x.MinWaitingTime)
	case map[string]interface{}:
		name, _ = x["id"].(string)
		b, _ := json.Marshal(x)
		h.Write(b)
	case *map[string]interface{}:
		if x != nil {
			name, _ = (*x)["id"].(string)
			b, _ := json.Marshal(*x)
			h.Write(b)
		}
	}
	for j := 0; j < n; j++ {
		if name == apEntryName(j) {
			return j, h.Sum64()
		}
	}
	return -1, 0
}
