package main

// C07 / C14 driver.  Input: NDJSON case files written by TLC (spec/AmmoFormatsMC.tla: every
// abstract ammo file x layout, resp. x chosencases x limit x passes x preload) and/or seeded random
// large files.  For every case: render the abstract file to bytes (ammofmt_render.go), put it on an
// afero mem fs, build the REAL provider through the registered plugin constructor
// (config.Decode of {type: uri|uripost|raw|http/json, file, limit, passes, preload, chosencases}),
// Run it, Acquire (and Release, as the engine does) up to conf.take entries, project every
// *http.Request to the abstract record (method, RequestURI, Host, canonical header map, body bytes,
// tag) and record it together with: did Acquire report the end of ammo, how did Run end.
// It records; TraceAmmoFormats.tla decides.

import (
	"context"
	"crypto/sha256"
	"encoding/hex"
	"encoding/json"
	"errors"
	"flag"
	"fmt"
	"io"
	"os"
	"regexp"
	"sort"
	"strconv"
	"strings"
	"sync"
	"sync/atomic"
	"time"

	"github.com/spf13/afero"
	phttp "github.com/yandex/pandora/components/guns/http"
	httpprovider "github.com/yandex/pandora/components/providers/http"
	"github.com/yandex/pandora/core"
	"github.com/yandex/pandora/core/config"
	coreimport "github.com/yandex/pandora/core/import"
	"go.uber.org/zap"

	"verifharness/internal/vt"
)

func init() { register("ammofmt", ammofmtMain) }

type afConf struct {
	Limit   int      `json:"limit"`
	Passes  int      `json:"passes"`
	Preload bool     `json:"preload"`
	Chosen  []string `json:"chosen"`
	Take    int      `json:"take"`
	Rep     string   `json:"rep"` // how "none" is written for the optional lists: absent | null | empty
}

type afDeliv struct {
	Method  string     `json:"method"`
	URI     string     `json:"uri"`
	Host    string     `json:"host"`
	Headers [][]string `json:"headers"`
	Body    string     `json:"body"`
	Tag     string     `json:"tag"`
}

type afObs struct {
	Built   bool      `json:"built"`
	Deliv   []afDeliv `json:"deliv"`
	Ended   bool      `json:"ended"`
	Outcome string    `json:"outcome"` // nil | error | cancel | hang
	Err     string    `json:"err"`     // text of Run's / the constructor's error (not compared)
	Via     string    `json:"via"`     // config map shape used
	Consume string    `json:"consume"` // consumer discipline (when a delivery is verified)
}

type afCase struct {
	ID    int      `json:"id"`
	Fmt   string   `json:"fmt"`
	Items []afItem `json:"items"`
	Lay   afLay    `json:"lay"`
	Lays  []afLay  `json:"lays,omitempty"` // per-item layouts of random cases (Lay = first one)
	Conf  afConf   `json:"conf"`
	Src   string   `json:"src"` // "tlc" | "random:<seed>:<n>"
	Obs   *afObs   `json:"obs,omitempty"`
}

// bodyKey is the value under which body bytes travel in traces (TLC compares strings for equality):
// the hex of the bytes, or length and SHA-256 for long bodies.  Used for the file side and for the
// delivery side alike.
func bodyKey(b []byte) string {
	if len(b) <= 64 {
		return hex.EncodeToString(b)
	}
	s := sha256.Sum256(b)
	return fmt.Sprintf("len%d:sha256:%s", len(b), hex.EncodeToString(s[:12]))
}

// strKey: strings travel in traces as they are, long ones (URIs, tags, header values beyond 128 bytes)
// as length + SHA-256 prefix -- on the file side and on the delivery side alike.
func strKey(s string) string {
	if len(s) <= 128 {
		return s
	}
	h := sha256.Sum256([]byte(s))
	return fmt.Sprintf("len%d:sha256:%s", len(s), hex.EncodeToString(h[:12]))
}

// Macros of the TLC alphabets (TLA+ strings stay short and free of control characters):
// {TAB} a tab; {Ln} n bytes of URL-safe text; in body fields {Bn} n binary bytes (all byte values,
// i.e. newlines, CR, '[' included), {Tn} n bytes of ASCII text with quotes, backslashes, newlines.
const afAlnum = "0123456789abcdefghijklmnopqrstuvwxyz"

func afLong(n int) string {
	b := make([]byte, n)
	for i := range b {
		b[i] = afAlnum[(i*7+i/36+n)%36] // depends on n: a shorter run is not a prefix of a longer one
	}
	return string(b)
}

func afBin(n int) []byte {
	b := make([]byte, n)
	for i := range b {
		b[i] = byte(i*131 + (i>>8)*29 + n*17 + 89) // depends on n, period far above 256
	}
	return b
}

func afText(n int) []byte {
	const ch = "abc XYZ019\n\r\t\"\\{}[]:,<>&'"
	b := make([]byte, n)
	for i := range b {
		b[i] = ch[(i*5+i/len(ch)+n)%len(ch)]
	}
	return b
}

var afMacro = regexp.MustCompile(`\{(TAB|L[0-9]+)\}`)

func afExpand(s string) string {
	if !strings.Contains(s, "{") {
		return s
	}
	return afMacro.ReplaceAllStringFunc(s, func(m string) string {
		if m == "{TAB}" {
			return "\t"
		}
		n, _ := strconv.Atoi(m[2 : len(m)-1])
		return afLong(n)
	})
}

func afBodyBytes(s string) []byte {
	if len(s) > 3 && s[0] == '{' && s[len(s)-1] == '}' && (s[1] == 'B' || s[1] == 'T') {
		n, err := strconv.Atoi(s[2 : len(s)-1])
		if err != nil {
			panic("body macro " + s)
		}
		if s[1] == 'B' {
			return afBin(n)
		}
		return afText(n)
	}
	b, err := hex.DecodeString(s)
	if err != nil {
		panic(err)
	}
	return b
}

var afTypeName = map[string]string{"uri": "uri", "uripost": "uripost", "raw": "raw", "json": "http/json"}
var afDecoderName = map[string]string{"uri": "uri", "uripost": "uripost", "raw": "raw", "json": "jsonline"}

var (
	afFS        afero.Fs
	afWatchdog  time.Duration
	afHangs     atomic.Int32 // confirmed hangs so far
	afHangQuick = 8          // after that many confirmed hangs the run is red anyway: no more confirmation runs
)

func ammofmtMain(args []string) {
	fl := flag.NewFlagSet("ammofmt", flag.ExitOnError)
	in := fl.String("in", "", "comma separated TLC case files (NDJSON)")
	out := fl.String("out", "", "trace file")
	random := fl.Int("random", 0, "number of random large files per format")
	mode := fl.String("mode", "c07", "random cases: c07 (unbounded, no filter) | c14 (random limit/passes/chosen/preload)")
	maxEntries := fl.Int("maxentries", 200, "")
	maxBody := fl.Int("maxbody", 65536, "")
	workers := fl.Int("workers", 8, "")
	wd := fl.Int("watchdog_ms", 5000, "hang watchdog per Acquire / Run return (normal: well below 1 ms)")
	fl.Parse(args)
	afWatchdog = time.Duration(*wd) * time.Millisecond

	afFS = afero.NewMemMapFs()
	coreimport.Import(afFS)
	httpprovider.Import(afFS)

	var cases []*afCase
	for _, p := range strings.Split(*in, ",") {
		if p == "" {
			continue
		}
		for _, c := range afReadCases(p) {
			c.Src = "tlc"
			cases = append(cases, c)
		}
	}
	cases = append(cases, afRandomCases(vt.Seed(), *random, *mode, *maxEntries, *maxBody)...)
	for i, c := range cases {
		c.ID = i + 1
	}

	var next atomic.Int64
	var wg sync.WaitGroup
	for w := 0; w < *workers; w++ {
		wg.Add(1)
		go func() {
			defer wg.Done()
			for {
				i := int(next.Add(1)) - 1
				if i >= len(cases) {
					return
				}
				afRunCase(cases[i])
			}
		}()
	}
	wg.Wait()

	w := vt.Create(*out)
	for _, c := range cases {
		w.Emit(c)
	}
	w.Close()
	fmt.Fprintf(os.Stderr, "ammofmt: %d cases, %d confirmed hangs\n", len(cases), afHangs.Load())
}

func afReadCases(path string) []*afCase {
	f, err := os.Open(path)
	if err != nil {
		panic(err)
	}
	defer f.Close()
	dec := json.NewDecoder(f)
	var out []*afCase
	for {
		c := &afCase{}
		if err := dec.Decode(c); err == io.EOF {
			break
		} else if err != nil {
			panic(fmt.Sprintf("%s: %v", path, err))
		}
		for i := range c.Items {
			it := &c.Items[i]
			it.Val = afExpand(it.Val)
			if e := it.E; e != nil {
				e.URI, e.Tag, e.Host = afExpand(e.URI), afExpand(e.Tag), afExpand(e.Host)
				for _, h := range e.Headers {
					h[1] = afExpand(h[1])
				}
				e.body = afBodyBytes(e.Body)
				e.Body = bodyKey(e.body)
			}
		}
		for i := range c.Conf.Chosen {
			c.Conf.Chosen[i] = afExpand(c.Conf.Chosen[i])
		}
		out = append(out, c)
	}
	return out
}

func afRunCase(c *afCase) {
	lays := c.Lays
	if lays == nil {
		lays = make([]afLay, len(c.Items))
		for i := range lays {
			lays[i] = c.Lay
		}
	}
	if len(lays) == 0 {
		lays = []afLay{c.Lay} // a file without items: the json array brackets still need a layout
	}
	data := afRender(c.Fmt, c.Items, lays, c.Lay.Final, c.Lay.Style)
	obs := afRunOnce(c, data)
	if obs.Outcome == "hang" {
		// a hang counts only when it is confirmed by a second run
		if int(afHangs.Load()) < afHangQuick {
			obs2 := afRunOnce(c, data)
			if obs2.Outcome != "hang" {
				obs = obs2
			}
		}
		if obs.Outcome == "hang" {
			afHangs.Add(1)
		}
	}
	c.Obs = obs
	for i := range c.Conf.Chosen {
		c.Conf.Chosen[i] = strKey(c.Conf.Chosen[i])
	}
	// drop the bytes of long bodies: the trace carries their bodyKey
	for i := range c.Items {
		if c.Items[i].E != nil {
			c.Items[i].E.body = nil
		}
	}
}

func afProviderConf(c *afCase, path string, yamlShape bool) interface{} {
	chosen := make([]interface{}, len(c.Conf.Chosen))
	for i, s := range c.Conf.Chosen {
		chosen[i] = s
	}
	m := map[string]interface{}{
		"type":    afTypeName[c.Fmt],
		"file":    path,
		"limit":   c.Conf.Limit,
		"passes":  c.Conf.Passes,
		"preload": c.Conf.Preload,
	}
	// optional list settings: chosencases (when no tag is listed), headers, uris -- key absent, null, or []
	// (config.Decode turns [] into an empty non-nil slice, absent / null into nil)
	switch c.Conf.Rep {
	case "null":
		m["chosencases"], m["headers"], m["uris"] = nil, nil, nil
	case "empty":
		m["chosencases"], m["headers"], m["uris"] = []interface{}{}, []interface{}{}, []interface{}{}
	}
	if len(chosen) > 0 {
		m["chosencases"] = chosen
	}
	if c.ID%3 == 0 {
		// the generic registration: type http + decoder option
		m["type"] = "http"
		m["decoder"] = afDecoderName[c.Fmt]
	}
	if !yamlShape {
		return map[string]interface{}{"ammo": m}
	}
	y := map[interface{}]interface{}{}
	for k, v := range m {
		y[k] = v
	}
	return map[interface{}]interface{}{"ammo": y}
}

func afRunOnce(c *afCase, data []byte) *afObs {
	obs := &afObs{Deliv: []afDeliv{}}
	path := fmt.Sprintf("/af/%d.ammo", c.ID)
	if err := afero.WriteFile(afFS, path, data, 0o644); err != nil {
		panic(err)
	}
	defer afFS.Remove(path)

	yamlShape := c.ID%2 == 0
	obs.Via = "viper"
	if yamlShape {
		obs.Via = "yaml"
	}
	if c.ID%3 == 0 {
		obs.Via += "+http/decoder"
	}
	var holder struct {
		Ammo core.Provider
	}
	if err := config.Decode(afProviderConf(c, path, yamlShape), &holder); err != nil || holder.Ammo == nil {
		obs.Err = fmt.Sprint(err)
		return obs
	}
	obs.Built = true
	p := holder.Ammo

	ctx, cancel := context.WithCancel(context.Background())
	defer cancel()
	runErr := make(chan error, 1)
	go func() { runErr <- p.Run(ctx, core.ProviderDeps{Log: zap.NewNop(), PoolID: "verif"}) }()

	// The consumers.  "A delivered request stays what it was": a request is not verified (projected, its body
	// read) right after its Acquire but while LATER entries are alive, as with several instances sharing the
	// provider:
	//   lag   - every delivery is verified after the NEXT Acquire has returned (so the next entry is decoded);
	//   pair0 - deliveries 1,3,5.. are held while the next one is acquired, verified and released, then verified;
	//   pair1 - the same for deliveries 2,4,6..
	// Deliveries are logged in the order of their Acquire.
	type step struct {
		d  afDeliv
		ok bool
	}
	obs.Consume = []string{"lag", "lag", "pair0", "pair0", "pair1"}[c.ID%5]
	steps := make(chan step)
	stop := make(chan struct{})
	go func() {
		defer close(steps)
		emit := func(s step) bool {
			select {
			case steps <- s:
				return true
			case <-stop:
				return false
			}
		}
		use := func(a core.Ammo) step {
			d := afProject(a)
			p.Release(a)
			return step{d, true}
		}
		if obs.Consume == "lag" {
			var held core.Ammo
			for {
				a, ok := p.Acquire()
				if held != nil {
					if !emit(use(held)) {
						return
					}
					held = nil
				}
				if !ok {
					emit(step{ok: false})
					return
				}
				held = a
			}
		}
		single := obs.Consume == "pair1" // pair1: the first delivery is used at once, pairs start with the second
		for {
			a, ok := p.Acquire()
			if !ok {
				emit(step{ok: false})
				return
			}
			if single {
				single = false
				if !emit(use(a)) {
					return
				}
				continue
			}
			b, ok2 := p.Acquire()
			if !ok2 {
				if emit(use(a)) {
					emit(step{ok: false})
				}
				return
			}
			sb := use(b)
			sa := use(a)
			if !emit(sa) || !emit(sb) {
				return
			}
		}
	}()

	hang := false
	wd := afWatchdog
	if int(afHangs.Load()) >= afHangQuick {
		wd = afWatchdog / 10 // the run is red already; only bounds its duration
	}
	timer := time.NewTimer(wd)
	defer timer.Stop()
loop:
	for len(obs.Deliv) < c.Conf.Take {
		if !timer.Stop() {
			select {
			case <-timer.C:
			default:
			}
		}
		timer.Reset(wd)
		select {
		case s := <-steps:
			if !s.ok {
				obs.Ended = true
				break loop
			}
			obs.Deliv = append(obs.Deliv, s.d)
		case <-timer.C:
			hang = true
			break loop
		}
	}
	close(stop)
	cancel()
	select {
	case err := <-runErr:
		switch {
		case err == nil:
			obs.Outcome = "nil"
		case errors.Is(err, context.Canceled):
			obs.Outcome = "cancel"
		default:
			obs.Outcome = "error"
			obs.Err = err.Error()
		}
	case <-time.After(wd):
		hang = true // Run does not come back after cancel
	}
	if hang {
		obs.Outcome = "hang"
	}
	return obs
}

// afProject: *http.Request -> abstract record.  Header names are canonical in http.Header; several
// values of one name are joined (Set semantics gives exactly one).
func afProject(a core.Ammo) afDeliv {
	ga, ok := a.(phttp.Ammo)
	if !ok {
		return afDeliv{Method: fmt.Sprintf("<%T>", a), Headers: [][]string{}}
	}
	req, sample := ga.Request()
	d := afDeliv{Method: req.Method, URI: strKey(req.URL.RequestURI()), Host: strKey(req.Host), Headers: [][]string{}, Tag: strKey(sample.Tags())}
	for k, vs := range req.Header {
		d.Headers = append(d.Headers, []string{k, strKey(strings.Join(vs, ", "))})
	}
	sort.Slice(d.Headers, func(i, j int) bool { return d.Headers[i][0] < d.Headers[j][0] })
	var body []byte
	if req.Body != nil {
		b, err := io.ReadAll(req.Body)
		if err != nil {
			d.Method = "<body read error: " + err.Error() + ">"
		}
		body = b
	}
	d.Body = bodyKey(body)
	return d
}
