package main

// C13 driver (parent side).  `vdrive malformed -cases <ndjson> -out <ndjson> -repo <pandora tree>`:
// every case TLC enumerated (spec/Malformed.tla, Cases) is rendered to bytes / a scenario description and
// run through the REAL providers in CHILD processes (`vdrive malformed-child`), because
//   * a panic in a goroutine the driver does not own kills the process - the child's death is the observation,
//   * an absurd size must not allocate a terabyte: children run under an address-space limit (RLIMIT_AS)
//     and an allocation failure ("fatal error: ... out of memory") is the observation "Crash".
// Many cases per child; after a crash the remainder is re-run in a fresh child.  The driver only RECORDS:
// one line {k:"case", c:<case>, evs:[{ev,arg}...], info:{...}} per case; TraceMalformed.tla decides.
//
// `-fuzz N` adds N byte-level mutation cases per format/mode (M1): {k:"fuzz", format, mode, intact, same, res}.

import (
	"bufio"
	"bytes"
	"encoding/json"
	"flag"
	"fmt"
	"os"
	"os/exec"
	"path/filepath"
	"strconv"
	"strings"
	"sync"
	"sync/atomic"
	"time"

	"verifharness/internal/vt"
)

func init() {
	register("malformed", malformedMain)
	register("malformed-child", malformedChild)
}

type mfEvent struct {
	Ev  string `json:"ev"`
	Arg string `json:"arg"`
}

type mfCase struct {
	Kind   string `json:"kind"`
	Format string `json:"format"`
	Mode   string `json:"mode"`
	Np     int    `json:"np"`
	Cls    string `json:"cls"`
	Nt     int    `json:"nt"`
	// parameters of a parameterised class (reqlist: step tokens; index: rows, index token, where)
	Arg []interface{} `json:"arg"`
}

// one unit of work for a child: an M2 case or an M1 fuzz case
type mfJob struct {
	K    string  `json:"k"` // "case" | "fuzz"
	C    *mfCase `json:"c,omitempty"`
	Fmt  string  `json:"format,omitempty"` // fuzz
	Mode string  `json:"mode,omitempty"`
	Seed int64   `json:"seed,omitempty"`
	// byte-edit case sampled by TLC (spec/ByteEdit.tla)
	EC *mfEditCase `json:"ec,omitempty"`
	// line-edit case enumerated by TLC (spec/LineEdit.tla)
	LC *mfLineEditCase `json:"lc,omitempty"`
}

type mfEdit struct {
	K    int    `json:"k"`
	Kind string `json:"kind"`
	Op   string `json:"op"`
}

type mfEditObs struct {
	Res       string `json:"res"`
	Delivered int    `json:"delivered"`
	Same      int    `json:"same"`
	InvalidAt []int  `json:"invalid_at"`
}

type mfEditCase struct {
	Format string `json:"format"`
	Mode   string `json:"mode"`
	E1     mfEdit `json:"e1"`
	E2     mfEdit `json:"e2"`
	N      int    `json:"n"` // entries of the valid file (NEntries of the configuration TLC ran with)
}

type mfLine struct {
	K string `json:"k"`
	// case
	C   *mfCase   `json:"c,omitempty"`
	Evs []mfEvent `json:"evs"`
	// fuzz
	Format string `json:"format,omitempty"`
	Mode   string `json:"mode,omitempty"`
	Intact int    `json:"intact"`
	Same   int    `json:"same"`
	Res    string `json:"res,omitempty"`
	Seed   int64  `json:"seed,omitempty"`
	// byte-edit lines (k = "edit"): the case, number of deliveries, positions of the invalid ones
	EC  *mfEditCase `json:"ec,omitempty"`
	Obs *mfEditObs  `json:"obs,omitempty"`
	// line-edit lines (k = "ledit")
	LC *mfLineEditCase `json:"lc,omitempty"`
	// diagnostics, not read by the specification
	Info map[string]interface{} `json:"info,omitempty"`
}

func malformedMain(args []string) {
	fl := flag.NewFlagSet("malformed", flag.ExitOnError)
	casesPath := fl.String("cases", "", "NDJSON case list printed by TLC")
	out := fl.String("out", "", "trace output")
	repo := fl.String("repo", "/repo", "pandora tree (bundled scenario payloads are read from it)")
	fuzz := fl.Int("fuzz", 0, "byte-level mutation cases per format x mode")
	editsPath := fl.String("edits", "", "NDJSON byte-edit cases sampled by TLC -simulate (ByteEdit.tla)")
	leditsPath := fl.String("ledits", "", "NDJSON line-edit cases enumerated by TLC (LineEdit.tla)")
	batch := fl.Int("batch", 400, "jobs per child")
	memMB := fl.Int("mem", 4096, "address-space limit of a child, MiB")
	par := fl.Int("par", 4, "child processes running at the same time")
	fl.Parse(args)

	var jobs []mfJob
	if *casesPath != "" {
		for _, m := range vt.ReadNDJSON(*casesPath) {
			b, _ := json.Marshal(m)
			var c mfCase
			if err := json.Unmarshal(b, &c); err != nil {
				panic(err)
			}
			cc := c
			jobs = append(jobs, mfJob{K: "case", C: &cc})
		}
	}
	if *editsPath != "" {
		for _, m := range vt.ReadNDJSON(*editsPath) {
			b, _ := json.Marshal(m)
			var ec mfEditCase
			if err := json.Unmarshal(b, &ec); err != nil {
				panic(err)
			}
			e := ec
			jobs = append(jobs, mfJob{K: "edit", EC: &e})
		}
	}
	if *leditsPath != "" {
		for _, m := range vt.ReadNDJSON(*leditsPath) {
			b, _ := json.Marshal(m)
			var lc mfLineEditCase
			if err := json.Unmarshal(b, &lc); err != nil {
				panic(err)
			}
			e := lc
			jobs = append(jobs, mfJob{K: "ledit", LC: &e})
		}
	}
	seed := vt.Seed()
	for i := 0; i < *fuzz; i++ {
		for _, fm := range mfFuzzTargets() {
			jobs = append(jobs, mfJob{K: "fuzz", Fmt: fm[0], Mode: fm[1], Seed: seed*1000003 + int64(i)})
		}
	}

	w := vt.Create(*out)
	defer w.Close()
	dir, err := os.MkdirTemp("", "vdrive-malformed-")
	if err != nil {
		panic(err)
	}
	defer os.RemoveAll(dir)

	// shards of consecutive jobs, one chain of child processes per shard, a few shards at a time (the jobs
	// mostly wait: child start-up, grace periods); results are written in job order
	results := make([]*mfLine, len(jobs))
	var children, hangs int64
	var wg sync.WaitGroup
	sem := make(chan struct{}, *par)
	shard := (len(jobs) + *par*3 - 1) / (*par * 3)
	if shard < 1 {
		shard = 1
	}
	for lo, k := 0, 0; lo < len(jobs); lo, k = lo+shard, k+1 {
		hi := lo + shard
		if hi > len(jobs) {
			hi = len(jobs)
		}
		wg.Add(1)
		go func(lo, hi, k int) {
			defer wg.Done()
			sem <- struct{}{}
			defer func() { <-sem }()
			mfRunShard(jobs, results, lo, hi, fmt.Sprintf("%s/s%d", dir, k), *repo, *memMB, *batch, &children, &hangs)
		}(lo, hi, k)
	}
	wg.Wait()
	for i, r := range results {
		if r == nil {
			fmt.Fprintf(os.Stderr, "malformed: no result for job %d\n", i)
			os.Exit(3)
		}
		w.Emit(r)
	}
	fmt.Fprintf(os.Stderr, "malformed: %d jobs in %d child processes\n", len(jobs), children)
}

func mfRunShard(jobs []mfJob, results []*mfLine, lo, hi int, prefix, repo string, memMB, batch int, children, hangs *int64) {
	next := lo
	for next < hi {
		end := next + batch
		if end > hi {
			end = hi
		}
		jobFile := prefix + "-jobs.ndjson"
		jf := vt.Create(jobFile)
		for _, j := range jobs[next:end] {
			jf.Emit(j)
		}
		jf.Close()
		resFile := prefix + "-res.ndjson"
		os.Remove(resFile)
		cmd := exec.Command(os.Args[0], "malformed-child", "-jobs", jobFile, "-out", resFile, "-repo", repo,
			"-mem", strconv.Itoa(memMB), "-hangms", strconv.Itoa(mfHangMillis(int(atomic.LoadInt64(hangs)))))
		var stderr bytes.Buffer
		cmd.Stderr = &stderr
		cmd.Stdout = os.Stderr
		// scratch files of a job live below the parent's scratch directory: a child that dies in the middle of a job
		// leaves nothing behind
		cmd.Env = append(os.Environ(), "GOTRACEBACK=single", "TMPDIR="+filepath.Dir(prefix))
		done := make(chan error, 1)
		if err := cmd.Start(); err != nil {
			panic(err)
		}
		go func() { done <- cmd.Wait() }()
		var werr error
		select {
		case werr = <-done:
		case <-time.After(10 * time.Minute):
			cmd.Process.Kill()
			<-done
			fmt.Fprintln(os.Stderr, "malformed: child exceeded 10 min (machinery)")
			os.Exit(3)
		}
		atomic.AddInt64(children, 1)
		// what the child managed to write
		lines, inFlight := mfReadResults(resFile)
		for i := range lines {
			results[next+i] = &lines[i]
		}
		completed := len(lines)
		if werr == nil {
			if completed != end-next {
				fmt.Fprintf(os.Stderr, "malformed: child exited 0 but wrote %d of %d results\n", completed, end-next)
				os.Exit(3)
			}
			next = end
			continue
		}
		code := -1
		if ee, ok := werr.(*exec.ExitError); ok {
			code = ee.ExitCode()
		}
		if code == 4 {
			// the child reported a confirmed hang for its last completed job and left; continue after it
			atomic.AddInt64(hangs, 1)
			next += completed
			continue
		}
		if code == 5 {
			fmt.Fprintf(os.Stderr, "malformed: child reports a machinery failure:\n%s\n", tail(stderr.String(), 3000))
			os.Exit(3)
		}
		// the child died while running job next+completed: that death is the observation
		if !inFlight {
			fmt.Fprintf(os.Stderr, "malformed: child died (rc=%d) outside a job:\n%s\n", code, tail(stderr.String(), 3000))
			os.Exit(3)
		}
		j := jobs[next+completed]
		what := mfCrashClass(stderr.String(), code)
		ln := mfLine{K: j.K, C: j.C, Format: j.Fmt, Mode: j.Mode, Seed: j.Seed, EC: j.EC, LC: j.LC,
			Info: map[string]interface{}{"exit": code, "stderr": tail(firstLines(stderr.String(), 12), 1500)}}
		if j.K == "case" {
			ln.Evs = []mfEvent{{"Crash", what}}
		} else if j.K == "edit" || j.K == "ledit" {
			ln.Evs = []mfEvent{}
			ln.Obs = &mfEditObs{Res: "crash", InvalidAt: []int{}}
		} else {
			ln.Res = "crash"
			ln.Evs = []mfEvent{}
		}
		results[next+completed] = &ln
		next += completed + 1
	}
}

// Hang rule: 5 s (normal: < 5 ms), confirmed by one re-run.  Once a hang has been confirmed that way the
// run's verdict no longer depends on later ones; to keep a badly broken tree from costing 10 s per case
// the wait drops to 2 s (still re-run once, still >= 400 x the normal time).
func mfHangMillis(confirmed int) int {
	if confirmed == 0 {
		return 5000
	}
	if confirmed < 5 {
		return 2000
	}
	return 500 // five confirmed hangs: the tree spins on a whole class of inputs; still 100 x the normal time, still re-run once
}

func tail(s string, n int) string {
	if len(s) > n {
		return s[len(s)-n:]
	}
	return s
}

func firstLines(s string, n int) string {
	l := strings.SplitN(s, "\n", n+1)
	if len(l) > n {
		l = l[:n]
	}
	return strings.Join(l, "\n")
}

func mfCrashClass(stderr string, code int) string {
	for _, ln := range strings.Split(stderr, "\n") {
		if strings.HasPrefix(ln, "panic:") || strings.HasPrefix(ln, "fatal error:") {
			if len(ln) > 160 {
				ln = ln[:160]
			}
			return ln
		}
	}
	return fmt.Sprintf("killed rc=%d", code)
}

// completed result lines of a child, and whether a job was in flight when it stopped writing
func mfReadResults(path string) ([]mfLine, bool) {
	f, err := os.Open(path)
	if err != nil {
		return nil, false
	}
	defer f.Close()
	sc := bufio.NewScanner(f)
	sc.Buffer(make([]byte, 1<<20), 1<<26)
	var lines []mfLine
	began := 0
	for sc.Scan() {
		b := sc.Bytes()
		if len(b) == 0 {
			continue
		}
		if bytes.HasPrefix(b, []byte(`{"begin"`)) {
			began++
			continue
		}
		var ln mfLine
		if err := json.Unmarshal(b, &ln); err != nil {
			// a torn last line of a dying child
			break
		}
		if ln.Evs == nil {
			ln.Evs = []mfEvent{}
		}
		lines = append(lines, ln)
	}
	return lines, began > len(lines)
}
