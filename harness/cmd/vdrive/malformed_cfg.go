package main

// C13, configuration files as TEXT through the real CLI reader (cli.VerifReadConfig = viper + readConfig +
// config.DecodeAndValidate, every real plugin registered) and, when that succeeds, a real engine.Engine against a
// local HTTP target.  Two families, both enumerated by TLC (spec/CfgSchema.tla, spec/Malformed.tla target "cfg"):
//
//	tree  arg = <<syntax, node, shape>>  the value at one node of the pool schema is replaced by a value of
//	                                     another shape (list where a map is expected, ...), the whole
//	                                     configuration is serialised as YAML / JSON / TOML
//	text  arg = <<syntax, class>>        a defect of the text itself (syntax error, duplicate key, anchors and
//	                                     aliases, BOM, NUL, several documents, ...)
//
// Stages: parse (viper read the file: anything but "Config read failed"), construct (readConfig returned a
// config), run (engine.Run returned nil and the target was shot at).  Recorded next to them: Named(x) when the
// error text names the defective pool, Shot when the target received a request although the configuration
// was rejected, Timeout when engine.Run had to be cancelled (twice).  This file only renders and records.

import (
	"context"
	"encoding/json"
	"flag"
	"fmt"
	"math"
	"net/http"
	"net/http/httptest"
	"os"
	"path/filepath"
	"strconv"
	"strings"
	"sync/atomic"
	"syscall"
	"time"

	"github.com/spf13/afero"
	"github.com/yandex/pandora/cli"
	"github.com/yandex/pandora/core/engine"
	"github.com/yandex/pandora/lib/monitoring"
	"go.uber.org/zap"

	phttpimport "github.com/yandex/pandora/components/phttp/import"
	scnimport "github.com/yandex/pandora/components/providers/scenario/import"
	coreimport "github.com/yandex/pandora/core/import"
)

func init() { register("malformed-cfgprobe", malformedCfgProbe) }

// ---------------------------------------------------------------------------------------------------
// value model: ordered mappings, lists, scalars (string, int, float64, bool, nil) and per-syntax literals

type cfgKV struct {
	K string
	V interface{}
}
type cfgMap []cfgKV
type cfgList []interface{}

// a literal written as it is (numbers no Go type holds, .inf, ...); "" = the syntax cannot express it
type cfgRaw struct{ yaml, json, toml string }

func mfCfgBase(target string) cfgMap {
	pool := func(i int) cfgMap {
		return cfgMap{
			{"id", fmt.Sprintf("pool-%d", i)},
			{"gun", cfgMap{{"type", "http"}, {"target", target}, {"dial", cfgMap{{"timeout", "1s"}}}}},
			{"ammo", cfgMap{{"type", "uri"}, {"file", "/pool/ammo.uri"}, {"limit", 2}, {"headers", cfgList{"[X-A: b]"}}}},
			{"result", cfgMap{{"type", "discard"}}},
			{"rps", cfgList{cfgMap{{"type", "once"}, {"times", 1}}, cfgMap{{"type", "const"}, {"ops", 100.0}, {"duration", "1s"}}}},
			{"startup", cfgMap{{"type", "once"}, {"times", 1}}},
			{"discard_overflow", true},
		}
	}
	return cfgMap{{"log", cfgMap{{"level", "error"}}}, {"pools", cfgList{pool(0), pool(1)}}}
}

// the value of a shape (CfgSchema!Shapes)
func mfCfgShape(shape string) interface{} {
	switch shape {
	case "map":
		return cfgMap{{"zz", 1}}
	case "emptymap":
		return cfgMap{}
	case "list":
		return cfgList{1, 2}
	case "emptylist":
		return cfgList{}
	case "listofmap":
		return cfgList{cfgMap{{"zz", 1}}}
	case "listoflist":
		return cfgList{cfgList{1}}
	case "str":
		return "abc"
	case "emptystr":
		return ""
	case "numstr":
		return "5"
	case "int":
		return 5
	case "negint":
		return -5
	case "hugeint":
		return cfgRaw{"99999999999999999999999999", "99999999999999999999999999", "99999999999999999999999999"}
	case "float":
		return 1.5
	case "inf":
		return cfgRaw{".inf", "", "inf"}
	case "nan":
		return cfgRaw{".nan", "", "nan"}
	case "bool":
		return true
	case "null":
		return cfgRaw{"null", "null", ""}
	case "negdur":
		return "-1s"
	case "hugedur":
		return "99999999999h"
	}
	machinery("unknown config shape %q", shape)
	return nil
}

// replace the value at a node ("root", "pools", "pools.1.gun.dial.timeout", "pools.1.rps.0.times", ...)
func mfCfgSubst(v interface{}, path []string, nv interface{}) interface{} {
	if len(path) == 0 {
		return nv
	}
	switch t := v.(type) {
	case cfgMap:
		out := cfgMap{}
		found := false
		for _, kv := range t {
			if kv.K == path[0] {
				found = true
				out = append(out, cfgKV{kv.K, mfCfgSubst(kv.V, path[1:], nv)})
			} else {
				out = append(out, kv)
			}
		}
		if !found {
			machinery("config node: no key %q", path[0])
		}
		return out
	case cfgList:
		i, err := strconv.Atoi(path[0])
		if err != nil || i < 0 || i >= len(t) {
			machinery("config node: no index %q", path[0])
		}
		out := append(cfgList{}, t...)
		out[i] = mfCfgSubst(t[i], path[1:], nv)
		return out
	}
	machinery("config node: %q below a scalar", path[0])
	return nil
}

// ---------------------------------------------------------------------------------------------------
// serialisers (trusted, deliberately plain)

func cfgScalar(v interface{}, syn string) (string, bool) {
	switch t := v.(type) {
	case nil:
		if syn == "toml" {
			machinery("toml has no null")
		}
		return "null", true
	case string:
		b, _ := json.Marshal(t)
		return string(b), true
	case int:
		return strconv.Itoa(t), true
	case float64:
		if t == math.Trunc(t) {
			return strconv.FormatFloat(t, 'f', 1, 64), true
		}
		return strconv.FormatFloat(t, 'g', -1, 64), true
	case bool:
		return strconv.FormatBool(t), true
	case cfgRaw:
		s := map[string]string{"yaml": t.yaml, "json": t.json, "toml": t.toml}[syn]
		if s == "" {
			machinery("literal not expressible in %s", syn)
		}
		return s, true
	}
	return "", false
}

func cfgYAML(v interface{}, ind int) string {
	pad := strings.Repeat(" ", ind)
	switch t := v.(type) {
	case cfgMap:
		if len(t) == 0 {
			return pad + "{}\n"
		}
		var sb strings.Builder
		for _, kv := range t {
			if s, ok := cfgInlineYAML(kv.V); ok {
				sb.WriteString(pad + kv.K + ": " + s + "\n")
			} else {
				sb.WriteString(pad + kv.K + ":\n" + cfgYAML(kv.V, ind+2))
			}
		}
		return sb.String()
	case cfgList:
		if len(t) == 0 {
			return pad + "[]\n"
		}
		var sb strings.Builder
		for _, it := range t {
			if s, ok := cfgInlineYAML(it); ok {
				sb.WriteString(pad + "- " + s + "\n")
			} else {
				sb.WriteString(pad + "-\n" + cfgYAML(it, ind+2))
			}
		}
		return sb.String()
	}
	s, _ := cfgScalar(v, "yaml")
	return pad + s + "\n"
}

func cfgInlineYAML(v interface{}) (string, bool) {
	switch t := v.(type) {
	case cfgMap:
		if len(t) == 0 {
			return "{}", true
		}
		return "", false
	case cfgList:
		if len(t) == 0 {
			return "[]", true
		}
		return "", false
	}
	return cfgScalar(v, "yaml")
}

// JSON and the inline form of TOML differ only in the punctuation of mappings
func cfgInline(v interface{}, syn string) string {
	switch t := v.(type) {
	case cfgMap:
		parts := []string{}
		for _, kv := range t {
			if syn == "json" {
				k, _ := json.Marshal(kv.K)
				parts = append(parts, string(k)+": "+cfgInline(kv.V, syn))
			} else {
				parts = append(parts, kv.K+" = "+cfgInline(kv.V, syn))
			}
		}
		return "{" + strings.Join(parts, ", ") + "}"
	case cfgList:
		parts := []string{}
		for _, it := range t {
			parts = append(parts, cfgInline(it, syn))
		}
		return "[" + strings.Join(parts, ", ") + "]"
	}
	s, _ := cfgScalar(v, syn)
	return s
}

func mfCfgSerialise(v interface{}, syn string) string {
	switch syn {
	case "yaml":
		return cfgYAML(v, 0)
	case "json":
		return cfgInline(v, "json") + "\n"
	case "toml":
		root, ok := v.(cfgMap)
		if !ok {
			machinery("a toml document is a table")
		}
		var sb strings.Builder
		for _, kv := range root {
			sb.WriteString(kv.K + " = " + cfgInline(kv.V, "toml") + "\n")
		}
		return sb.String()
	}
	machinery("unknown config syntax %q", syn)
	return ""
}

// ---------------------------------------------------------------------------------------------------
// running one configuration text

type mfCfgRun struct {
	evs  []mfEvent
	info map[string]interface{}
}

// mfRunCfgText: text -> file with the extension of the syntax -> readConfig -> engine.  parseStage: emit
// Stage(parse) when viper could read the file (the pool family of malformed_pool.go has no such stage).
func mfRunCfgText(text, syn string, srv *httptest.Server, hits *int64, parseStage bool) mfCfgRun {
	afero.WriteFile(mfFS, "/pool/ammo.uri", []byte("/a\n/b\n"), 0o644)
	dir, err := os.MkdirTemp("", "vdrive-c13-cfg-")
	if err != nil {
		machinery("%v", err)
	}
	defer os.RemoveAll(dir)
	cfgFile := filepath.Join(dir, "load."+syn)
	if syn == "noext" {
		cfgFile = filepath.Join(dir, "load")
	}
	os.WriteFile(cfgFile, []byte(text), 0o644)
	// readConfig logs to the stderr of the moment it is called: give it a file, read it back
	logFile, _ := os.Create(filepath.Join(dir, "stderr.log"))
	oldStderr := os.Stderr
	os.Stderr = logFile
	var conf *cli.CliConfig
	outcome, panicText := "ok", ""
	func() {
		defer func() {
			if r := recover(); r != nil {
				if _, isExit := r.(zapExit); isExit {
					outcome = "fatal"
					return
				}
				outcome, panicText = "panic", trunc(fmt.Sprint(r), 200)
			}
		}()
		defer zap.ReplaceGlobals(zap.NewNop())
		conf = cli.VerifReadConfig([]string{cfgFile})
	}()
	os.Stderr = oldStderr
	logFile.Close()
	loggedB, _ := os.ReadFile(filepath.Join(dir, "stderr.log"))
	logged := string(loggedB)
	evs := []mfEvent{}
	info := map[string]interface{}{"config": trunc(text, 1500), "log": tail(logged, 700)}
	// which log.Fatal ended readConfig: the message of the FATAL line (an error that was merely logged does not count)
	fatalMsg := ""
	for _, ln := range strings.Split(logged, "\n") {
		if f := strings.Split(ln, "\t"); len(f) >= 4 && f[1] == "FATAL" {
			fatalMsg = f[3]
		}
	}
	info["fatal"] = fatalMsg
	readFailed := fatalMsg == "Config read failed" || fatalMsg == "Config parsing failed"
	if outcome == "panic" {
		evs = append(evs, mfEvent{"Panic", "readConfig: " + panicText})
		return mfCfgRun{evs, info}
	}
	if parseStage && !(outcome == "fatal" && readFailed) {
		evs = append(evs, mfEvent{"Stage", "parse"})
	}
	if outcome == "fatal" {
		if strings.Contains(logged, "pools[1]") || strings.Contains(logged, "Pools[1]") {
			evs = append(evs, mfEvent{"Named", "pools[1]"})
		}
		if h := atomic.LoadInt64(hits); h > 0 {
			evs = append(evs, mfEvent{"Shot", "before the configuration was rejected"})
		}
		evs = append(evs, mfEvent{"End", "rejected"})
		return mfCfgRun{evs, info}
	}
	evs = append(evs, mfEvent{"Stage", "construct"})
	// run the engine the way the CLI does; a run that has to be cancelled is tried once more
	var runErr error
	timedOut := false
	for attempt := 0; attempt < 2; attempt++ {
		if attempt == 1 {
			// the providers of the first configuration have been used: decode a fresh one
			func() {
				defer func() { recover() }()
				defer zap.ReplaceGlobals(zap.NewNop())
				os.Stderr = nil
				defer func() { os.Stderr = oldStderr }()
				conf = cli.VerifReadConfig([]string{cfgFile})
			}()
		}
		m := engine.Metrics{Request: &monitoring.Counter{}, Response: &monitoring.Counter{}, InstanceStart: &monitoring.Counter{}, InstanceFinish: &monitoring.Counter{}}
		eng := engine.New(zap.NewNop(), m, conf.Engine)
		ctx, cancel := context.WithTimeout(context.Background(), 4*time.Second)
		panics := make(chan string, 1)
		safely(panics, "engine.Run", func() { runErr = eng.Run(ctx) })
		timedOut = ctx.Err() != nil
		cancel()
		select {
		case p := <-panics:
			evs = append(evs, mfEvent{"Panic", trunc(p, 200)})
			return mfCfgRun{evs, info}
		default:
		}
		if !timedOut {
			break
		}
		eng.Wait()
	}
	info["run_err"] = errStr(runErr)
	info["hits"] = atomic.LoadInt64(hits)
	if timedOut {
		evs = append(evs, mfEvent{"Timeout", "engine.Run had to be cancelled after 4 s, twice: " + errStr(runErr)})
		return mfCfgRun{evs, info}
	}
	if runErr != nil {
		if strings.Contains(runErr.Error(), `"pool-1"`) {
			evs = append(evs, mfEvent{"Named", "pool-1"})
		}
		evs = append(evs, mfEvent{"End", "rejected"})
		return mfCfgRun{evs, info}
	}
	if atomic.LoadInt64(hits) > 0 {
		evs = append(evs, mfEvent{"Stage", "run"})
	}
	evs = append(evs, mfEvent{"End", "accepted"})
	return mfCfgRun{evs, info}
}

func mfCfgTarget() (*httptest.Server, *int64, string) {
	hits := new(int64)
	srv := httptest.NewServer(http.HandlerFunc(func(w http.ResponseWriter, r *http.Request) {
		atomic.AddInt64(hits, 1)
		w.WriteHeader(200)
	}))
	return srv, hits, strings.TrimPrefix(srv.URL, "http://")
}

// mfRenderCfg: the text of a case of target "cfg"
func mfRenderCfg(c mfCase, target string) (text, syn string) {
	str := func(i int) string {
		s, _ := c.Arg[i].(string)
		return s
	}
	syn = str(0)
	switch c.Cls {
	case "tree":
		node, shape := str(1), str(2)
		var path []string
		if node != "root" {
			path = strings.Split(node, ".")
		}
		v := mfCfgBase(target)
		var out interface{} = v
		if shape != "same" {
			out = mfCfgSubst(v, path, mfCfgShape(shape))
		}
		return mfCfgSerialise(out, syn), syn
	case "text":
		return mfRenderCfgText(syn, str(1), target), syn
	}
	machinery("no renderer for cfg class %q", c.Cls)
	return "", ""
}

func mfRunCfgCase(c mfCase) mfLine {
	srv, hits, target := mfCfgTarget()
	defer srv.Close()
	text, syn := mfRenderCfg(c, target)
	r := mfRunCfgText(text, syn, srv, hits, true)
	return mfLine{K: "case", C: &c, Evs: r.evs, Info: r.info}
}

// ---------------------------------------------------------------------------------------------------
// `vdrive malformed-cfgprobe`: development aid and replay helper - prints what one case (or one file) does

func malformedCfgProbe(args []string) {
	fl := flag.NewFlagSet("malformed-cfgprobe", flag.ExitOnError)
	syn := fl.String("syntax", "yaml", "")
	node := fl.String("node", "", "tree case: node")
	shape := fl.String("shape", "", "tree case: shape")
	class := fl.String("class", "", "text case: class")
	file := fl.String("file", "", "run this file instead (TARGET is replaced by the address of the local target)")
	show := fl.Bool("show", false, "print the text")
	fl.Parse(args)
	lim := syscall.Rlimit{Cur: 4096 << 20, Max: 4096 << 20}
	syscall.Setrlimit(syscall.RLIMIT_AS, &lim)
	mfFS = afero.NewMemMapFs()
	coreimport.Import(mfFS)
	scnimport.Import(mfFS)
	phttpimport.Import(mfFS)
	zapExitToPanic()
	srv, hits, target := mfCfgTarget()
	defer srv.Close()
	var text string
	switch {
	case *file != "":
		b, err := os.ReadFile(*file)
		if err != nil {
			machinery("%v", err)
		}
		text = strings.ReplaceAll(string(b), "TARGET", target)
	case *class != "":
		text, _ = mfRenderCfg(mfCase{Cls: "text", Arg: []interface{}{*syn, *class}}, target)
	default:
		text, _ = mfRenderCfg(mfCase{Cls: "tree", Arg: []interface{}{*syn, *node, *shape}}, target)
	}
	if *show {
		fmt.Println(text)
	}
	r := mfRunCfgText(text, *syn, srv, hits, true)
	evs := []string{}
	for _, e := range r.evs {
		evs = append(evs, e.Ev+"("+e.Arg+")")
	}
	lg, _ := r.info["log"].(string)
	why := ""
	for _, ln := range strings.Split(lg, "\n") {
		if strings.Contains(ln, "FATAL") || strings.Contains(ln, "failed") {
			why = ln
		}
	}
	if i := strings.Index(why, "{\"error\""); i >= 0 {
		why = why[i:]
	}
	one := func(x interface{}) string { return strings.ReplaceAll(fmt.Sprint(x), "\n", " ") }
	fmt.Printf("%s | run_err=%s hits=%v | %s\n", strings.Join(evs, " "), trunc(one(r.info["run_err"]), 200), r.info["hits"], trunc(one(why), 260))
}
