// vpandora: a custom pandora (the documented extension mechanism, cf. examples/custom_pandora):
// the REAL cli.Run() with the standard imports, plus two result types "vphout" / "vjsonlines" that are
// the real phout / jsonlines aggregators behind a counting wrapper.  The wrapper writes one byte to
// $VPANDORA_DIR/enter.bin (O_APPEND) BEFORE delegating a Report call and one byte to ret.bin AFTER the
// delegate returned, and records the aggregator's own Run result in run.json.  Bytes written with
// write(2) survive the process exit, so the driver can count reports of a process that was stopped
// with SIGINT/SIGTERM at any moment (C06, process level).  Nothing here decides anything.
package main

import (
	"context"
	"encoding/json"
	"errors"
	"fmt"
	"os"
	"path/filepath"
	"sync/atomic"
	"time"

	"github.com/spf13/afero"
	"github.com/yandex/pandora/cli"
	grpcimport "github.com/yandex/pandora/components/grpc/import"
	phttp "github.com/yandex/pandora/components/phttp/import"
	"github.com/yandex/pandora/core"
	"github.com/yandex/pandora/core/aggregator"
	"github.com/yandex/pandora/core/aggregator/netsample"
	coreimport "github.com/yandex/pandora/core/import"
	"github.com/yandex/pandora/core/register"
)

var one = []byte{1}

type counting struct {
	core.Aggregator
	enter, ret *os.File
	dir        string
}

// Report calls that have returned, process wide (also read by the failing provider below)
var returnedTotal int64

func (c *counting) Report(s core.Sample) {
	c.enter.Write(one)
	c.Aggregator.Report(s)
	c.ret.Write(one)
	atomic.AddInt64(&returnedTotal, 1)
}

// "vfail": an ammo provider whose Run fails `after` into the run (C05 plan prov-mid-run, at process level): the
// pool fails on its own, Engine.Run returns the error and the CLI enters "Engine run failed. Awaiting started
// tasks." while the OTHER pools' aggregators still drain and flush.  Right before it fails it records how many
// Report calls had returned - all of them were made before the exit path began.
type failConf struct {
	After time.Duration `config:"after"`
}

type failProvider struct{ after time.Duration }

func (p *failProvider) Run(ctx context.Context, _ core.ProviderDeps) error {
	select {
	case <-time.After(p.after):
		n := atomic.LoadInt64(&returnedTotal)
		dir := os.Getenv("VPANDORA_DIR")
		if dir == "" {
			dir = "."
		}
		os.WriteFile(filepath.Join(dir, "fail.json"), []byte(fmt.Sprintf("{\"returned_before\": %d}\n", n)), 0644)
		return errors.New("ammo source broke mid-run")
	case <-ctx.Done():
		return nil
	}
}
func (p *failProvider) Acquire() (core.Ammo, bool) { return struct{}{}, true }
func (p *failProvider) Release(core.Ammo)          {}

// "vnop": a gun that shoots nothing and reports nothing
type nopGun struct{}

func (nopGun) Bind(core.Aggregator, core.GunDeps) error { return nil }
func (nopGun) Shoot(core.Ammo)                          {}

func (c *counting) Run(ctx context.Context, deps core.AggregatorDeps) error {
	err := c.Aggregator.Run(ctx, deps)
	rec := map[string]interface{}{"err": "", "dropped": 0}
	if err != nil {
		var d *aggregator.SomeSamplesDropped
		if errors.As(err, &d) {
			rec["dropped"] = d.Dropped
			if err.Error() != d.Error() {
				rec["err"] = err.Error()
			}
		} else {
			rec["err"] = err.Error()
		}
	}
	b, _ := json.Marshal(rec)
	f, ferr := os.OpenFile(filepath.Join(c.dir, "run.json"), os.O_WRONLY|os.O_CREATE|os.O_APPEND, 0644)
	if ferr == nil {
		f.Write(append(b, '\n'))
		f.Close()
	}
	return err
}

// netsample.Sample has no exported fields (jsonlines would print "{}"): a custom pandora reports its
// own sample type to the jsonlines aggregator, here a view of the net sample of realistic size.
type jsonView struct {
	Tag   string `json:"tag"`
	ID    uint64 `json:"id"`
	Proto int    `json:"proto"`
	Note  string `json:"note"`
}

type viewAdapter struct{ core.Aggregator }

const note = "0123456789abcdef0123456789abcdef0123456789abcdef0123456789abcdef"

func (v viewAdapter) Report(s core.Sample) {
	if ns, ok := s.(*netsample.Sample); ok {
		s = jsonView{Tag: ns.Tags(), ID: ns.ID(), Proto: ns.ProtoCode(), Note: note}
	}
	v.Aggregator.Report(s)
}

func wrap(a core.Aggregator) core.Aggregator {
	dir := os.Getenv("VPANDORA_DIR")
	if dir == "" {
		dir = "."
	}
	open := func(name string) *os.File {
		f, err := os.OpenFile(filepath.Join(dir, name), os.O_WRONLY|os.O_CREATE|os.O_APPEND, 0644)
		if err != nil {
			panic(err)
		}
		return f
	}
	return &counting{Aggregator: a, enter: open("enter.bin"), ret: open("ret.bin"), dir: dir}
}

func main() {
	fs := afero.NewOsFs()
	coreimport.Import(fs)
	phttp.Import(fs)
	grpcimport.Import(fs)

	register.Aggregator("vphout", func(conf netsample.PhoutConfig) (core.Aggregator, error) {
		a, err := netsample.NewPhout(fs, conf)
		if err != nil {
			return nil, err
		}
		return wrap(netsample.WrapAggregator(a)), nil
	}, netsample.DefaultPhoutConfig)
	register.Aggregator("vjsonlines", func(conf aggregator.JSONLineAggregatorConfig) core.Aggregator {
		return wrap(viewAdapter{aggregator.NewJSONLinesAggregator(conf)})
	}, aggregator.DefaultJSONLinesAggregatorConfig)

	register.Provider("vfail", func(conf failConf) core.Provider { return &failProvider{conf.After} },
		func() failConf { return failConf{After: 300 * time.Millisecond} })
	register.Gun("vnop", func() core.Gun { return nopGun{} })

	cli.Run()
}
