package grpctarget

import (
	"context"
	"io"
	"net"
	"net/http"
	"strconv"
	"sync"
	"sync/atomic"
	"time"
)

// HTTPTarget: minimal recording HTTP/1.1 target for the isolation runs.  Logs the three places
// a per-shot token travels in (query parameter tok, header X-Tok, body) of every request.
type HTTPTarget struct {
	// FailShare: answer a share of the requests (decided by the request's token) so that configured
	// postprocessors fail at run time: token%5 == 0 -> 500 + a body that is not JSON;
	// token%5 == 1 -> 2xx JSON without the asserted key.  Other requests: 200..203 by token.
	FailShare bool
	// Barrier > 0: requests for /r3 (the step with the var/xpath postprocessor) are held until that many are waiting --
	// or 15 ms have passed since the first one -- and answered together, so that the instances run the step's
	// postprocessors at the same time.
	Barrier int
	bmu     sync.Mutex
	waiting []chan struct{}
	rec     *Rec
	srv     *http.Server
	Addr    string
}

func (t *HTTPTarget) barrier() {
	if t.Barrier <= 1 {
		return
	}
	ch := make(chan struct{})
	t.bmu.Lock()
	t.waiting = append(t.waiting, ch)
	release := func() {
		for _, c := range t.waiting {
			close(c)
		}
		t.waiting = nil
	}
	if len(t.waiting) >= t.Barrier {
		release()
	} else if len(t.waiting) == 1 {
		go func() {
			time.Sleep(15 * time.Millisecond)
			t.bmu.Lock()
			if len(t.waiting) > 0 && t.waiting[0] == ch {
				release()
			}
			t.bmu.Unlock()
		}()
	}
	t.bmu.Unlock()
	<-ch
}

func StartHTTP(rec *Rec) *HTTPTarget { return StartHTTPAt(rec, "127.0.0.1:0") }

// ReserveAddr returns a loopback address nothing listens on (any more).
func ReserveAddr() string {
	l, err := net.Listen("tcp", "127.0.0.1:0")
	if err != nil {
		panic(err)
	}
	a := l.Addr().String()
	_ = l.Close()
	return a
}

func StartHTTPAt(rec *Rec, addr string) *HTTPTarget {
	t := &HTTPTarget{rec: rec}
	var l net.Listener
	var err error
	for i := 0; i < 50; i++ {
		if l, err = net.Listen("tcp", addr); err == nil {
			break
		}
		time.Sleep(10 * time.Millisecond)
	}
	if err != nil {
		panic(err)
	}
	t.Addr = l.Addr().String()
	// connection identity (the server's view): which calls share a connection
	t.srv = &http.Server{Handler: http.HandlerFunc(t.handle),
		ConnContext: func(ctx context.Context, _ net.Conn) context.Context {
			return context.WithValue(ctx, connKey{}, int(atomic.AddInt64(&connSeq, 1)))
		}}
	go func() { _ = t.srv.Serve(l) }()
	return t
}

func (t *HTTPTarget) Stop() { _ = t.srv.Close() }

func (t *HTTPTarget) handle(w http.ResponseWriter, r *http.Request) {
	body, _ := io.ReadAll(r.Body)
	status, fail := 200, ""
	if t.FailShare {
		if n, err := strconv.Atoi(r.URL.Query().Get("tok")); err == nil {
			status = 200 + n%4
			share := -1 // r3 / r4 (and everything else) are always answered well
			if r.URL.Path == "/r1" || r.URL.Path == "/r2" {
				share = n % 5
			}
			switch share {
			case 0:
				status, fail = 500, "not-json"
			case 1:
				fail = "no-key"
			}
		}
	}
	// which step of the scenario this is: r1 / r3 are steps whose token a postprocessor captures (cap), r2 / r4 carry
	// the captured value back (prev: "<none>" when the header is missing)
	capStep, from, prev := "", "", ""
	switch r.URL.Path {
	case "/r1", "/r3":
		capStep = r.URL.Path[1:]
	case "/r2":
		from, prev = "r1", r.Header.Get("X-Prev")
	case "/r4":
		from, prev = "r3", r.Header.Get("X-Xp")
	}
	if from != "" && prev == "" {
		prev = "<none>"
	}
	tok := r.URL.Query().Get("tok")
	defer func() {
		w.Header().Set("X-Echo", r.Header.Get("X-Tok"))
		switch {
		case fail == "not-json":
			w.Header().Set("Content-Type", "text/plain")
			w.WriteHeader(status)
			_, _ = w.Write([]byte("oops <html> not json"))
		case fail == "no-key":
			w.Header().Set("Content-Type", "application/json")
			w.WriteHeader(status)
			_, _ = w.Write([]byte(`{"other":1}`))
		case r.URL.Path == "/r3":
			// a document for the var/xpath postprocessor: the request's own token and a list
			w.Header().Set("Content-Type", "text/html")
			w.WriteHeader(status)
			_, _ = w.Write([]byte(`<html><head><title>t</title></head><body><div id="tok">` + tok + `</div><ul><li>a` + tok + `</li><li>b</li><li>c</li></ul></body></html>`))
		default:
			w.Header().Set("Content-Type", "application/json")
			w.WriteHeader(status)
			_, _ = w.Write([]byte(`{"result":"ok","items":[1,2,3]}`))
		}
	}()
	t.rec.Emit(E{"ev": "Recv", "proto": "http", "method": r.Method, "path": r.URL.Path,
		"q": r.URL.Query().Get("tok"), "h": r.Header.Get("X-Tok"), "h2": r.Header.Get("X-Tok2"), "body": string(body),
		"toks": []string{r.URL.Query().Get("tok"), r.Header.Get("X-Tok"), r.Header.Get("X-Tok2"), string(body)},
		"status": status, "fail": fail, "cap": capStep, "from": from, "prev": prev, "conn": connOf(r)})
	if r.URL.Path == "/r3" {
		t.barrier()
	}
}

func connOf(r *http.Request) int {
	id, _ := r.Context().Value(connKey{}).(int)
	return id
}
