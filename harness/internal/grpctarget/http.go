package grpctarget

import (
	"io"
	"net"
	"net/http"
	"strconv"
)

// HTTPTarget: minimal recording HTTP/1.1 target for the isolation runs.  Logs the three places
// a per-shot token travels in (query parameter tok, header X-Tok, body) of every request.
type HTTPTarget struct {
	// FailShare: answer a share of the requests (decided by the request's token) so that configured
	// postprocessors fail at run time: token%5 == 0 -> 500 + a body that is not JSON;
	// token%5 == 1 -> 2xx JSON without the asserted key.  Other requests: 200..203 by token.
	FailShare bool
	rec       *Rec
	srv  *http.Server
	Addr string
}

func StartHTTP(rec *Rec) *HTTPTarget {
	t := &HTTPTarget{rec: rec}
	l, err := net.Listen("tcp", "127.0.0.1:0")
	if err != nil {
		panic(err)
	}
	t.Addr = l.Addr().String()
	t.srv = &http.Server{Handler: http.HandlerFunc(t.handle)}
	go func() { _ = t.srv.Serve(l) }()
	return t
}

func (t *HTTPTarget) Stop() { _ = t.srv.Close() }

func (t *HTTPTarget) handle(w http.ResponseWriter, r *http.Request) {
	body, _ := io.ReadAll(r.Body)
	status, fail := 200, ""
	if t.FailShare {
		if n, err := strconv.Atoi(r.URL.Query().Get("tok")); err == nil {
			status = 200 + n%4
			switch n % 5 {
			case 0:
				status, fail = 500, "not-json"
			case 1:
				fail = "no-key"
			}
		}
	}
	defer func() {
		w.Header().Set("X-Echo", r.Header.Get("X-Tok"))
		switch fail {
		case "not-json":
			w.Header().Set("Content-Type", "text/plain")
			w.WriteHeader(status)
			_, _ = w.Write([]byte("oops <html> not json"))
		case "no-key":
			w.Header().Set("Content-Type", "application/json")
			w.WriteHeader(status)
			_, _ = w.Write([]byte(`{"other":1}`))
		default:
			w.Header().Set("Content-Type", "application/json")
			w.WriteHeader(status)
			_, _ = w.Write([]byte(`{"result":"ok","items":[1,2,3]}`))
		}
	}()
	t.rec.Emit(E{"ev": "Recv", "proto": "http", "method": r.Method, "path": r.URL.Path,
		"q": r.URL.Query().Get("tok"), "h": r.Header.Get("X-Tok"), "h2": r.Header.Get("X-Tok2"), "body": string(body),
		"toks": []string{r.URL.Query().Get("tok"), r.Header.Get("X-Tok"), r.Header.Get("X-Tok2"), string(body)},
		"status": status, "fail": fail})
}
