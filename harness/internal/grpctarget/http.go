package grpctarget

import (
	"io"
	"net"
	"net/http"
)

// HTTPTarget: minimal recording HTTP/1.1 target for the isolation runs.  Logs the three places
// a per-shot token travels in (query parameter tok, header X-Tok, body) of every request.
type HTTPTarget struct {
	rec  *Rec
	srv  *http.Server
	Addr string
}

func StartHTTP(rec *Rec) *HTTPTarget {
	t := &HTTPTarget{rec: rec}
	l, err := net.Listen("tcp", "127.0.0.1:0")
	if err != nil {
		panic(err)
	}
	t.Addr = l.Addr().String()
	t.srv = &http.Server{Handler: http.HandlerFunc(t.handle)}
	go func() { _ = t.srv.Serve(l) }()
	return t
}

func (t *HTTPTarget) Stop() { _ = t.srv.Close() }

func (t *HTTPTarget) handle(w http.ResponseWriter, r *http.Request) {
	body, _ := io.ReadAll(r.Body)
	t.rec.Emit(E{"ev": "Recv", "proto": "http", "method": r.Method, "path": r.URL.Path,
		"q": r.URL.Query().Get("tok"), "h": r.Header.Get("X-Tok"), "h2": r.Header.Get("X-Tok2"), "body": string(body),
		"toks": []string{r.URL.Query().Get("tok"), r.Header.Get("X-Tok"), r.Header.Get("X-Tok2"), string(body)}})
	w.Header().Set("Content-Type", "application/json")
	w.Header().Set("X-Echo", r.Header.Get("X-Tok"))
	_, _ = w.Write([]byte(`{"result":"ok","items":[1,2,3]}`))
}
