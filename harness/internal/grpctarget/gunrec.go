package grpctarget

import (
	"context"
	"io"
	"reflect"
	"strings"
	"sync"
	"sync/atomic"
	"time"

	grpcscn "github.com/yandex/pandora/components/guns/grpc/scenario"
	httpscn "github.com/yandex/pandora/components/guns/http_scenario"
	grpcammo "github.com/yandex/pandora/components/providers/grpc"
	"github.com/yandex/pandora/core"
	"github.com/yandex/pandora/core/aggregator/netsample"
	"github.com/yandex/pandora/core/warmup"
)

// WrapGunFactory decorates a gun factory produced by the REGISTERED plugin constructors:
// every product gets an identity, and NewGun / Bind (with the InstanceID the engine passes) /
// begin and end of Shoot (with goroutine id and a projection of the ammo) are recorded.
func WrapGunFactory(rec *Rec, orig func() (core.Gun, error)) func() (core.Gun, error) {
	var mu sync.Mutex
	ids := map[core.Gun]int{} // identity of the gun OBJECT the factory returned (guns are pointers)
	return func() (core.Gun, error) {
		g, err := orig()
		if err != nil || g == nil {
			rec.Emit(E{"ev": "NewGunFailed"})
			return g, err
		}
		mu.Lock()
		id, seen := ids[g]
		if !seen {
			id = len(ids) + 1
			ids[g] = id
		}
		mu.Unlock()
		rec.Emit(E{"ev": "NewGun", "gun": id, "gid": Goid()})
		return &RecGun{inner: g, id: id, rec: rec}, nil
	}
}

// FirstShotDelay (set by the driver before the pool runs): every gun sleeps that long before its FIRST shot --
// a target that is slow to answer the first request of a connection; the instance falls behind its schedule.
var FirstShotDelay time.Duration

type RecGun struct {
	inner   core.Gun
	id      int
	rec     *Rec
	started int32
}

// ObjID is the identity of an ammo OBJECT (pointer- or map-typed ammo; 0 when the ammo is a plain value).
// Ids are handed out in the order objects are first seen; the registry is guarded by its own mutex.
var (
	objMu  sync.Mutex
	objIDs = map[uintptr]int{}
)

func ObjID(a core.Ammo) int {
	v := reflect.ValueOf(a)
	if !v.IsValid() || (v.Kind() != reflect.Ptr && v.Kind() != reflect.Map) {
		return 0
	}
	p := v.Pointer()
	objMu.Lock()
	defer objMu.Unlock()
	id, ok := objIDs[p]
	if !ok {
		id = len(objIDs) + 1
		objIDs[p] = id
	}
	return id
}

// RecProvider logs Acquire / Release with the identity of the ammo object and the goroutine.  Acquire is logged
// AFTER the provider handed the object out and Release BEFORE it is given back, so the logged ownership
// interval lies inside the real one: with a correct engine and provider logged intervals of one object never overlap.
type RecProvider struct {
	Inner core.Provider
	Rec   *Rec
}

func (p *RecProvider) Run(ctx context.Context, deps core.ProviderDeps) error { return p.Inner.Run(ctx, deps) }

func (p *RecProvider) Acquire() (core.Ammo, bool) {
	a, ok := p.Inner.Acquire()
	if ok && !p.Rec.Quiet {
		p.Rec.Emit(E{"ev": "Acquire", "gid": Goid(), "obj": ObjID(a), "name": AmmoName(a)})
	}
	return a, ok
}

func (p *RecProvider) Release(a core.Ammo) {
	if !p.Rec.Quiet {
		p.Rec.Emit(E{"ev": "Release", "gid": Goid(), "obj": ObjID(a)})
	}
	p.Inner.Release(a)
}

func (g *RecGun) Bind(a core.Aggregator, deps core.GunDeps) error {
	err := g.inner.Bind(a, deps)
	e := E{"ev": "Bind", "gun": g.id, "inst": deps.InstanceID, "ok": err == nil, "gid": Goid()}
	g.rec.Emit(e)
	return err
}

// AmmoName projects an ammo onto the name the case file gave it ("" when the type hides it).
func AmmoName(a core.Ammo) string {
	switch x := a.(type) {
	case *grpcammo.Ammo:
		if x.IsInvalid() { // an undecodable line handed out under continue-on-error: it has no name of its own
			return "!invalid"
		}
		return x.Tag
	case *grpcscn.Scenario:
		return x.Name
	case *httpscn.Scenario:
		return x.Name
	case interface{ Tag() string }: // decoded HTTP ammo (uri, http/json, ...)
		return x.Tag()
	case *map[string]interface{}: // the generic json provider's ammo
		t, _ := (*x)["tag"].(string)
		return t
	}
	return ""
}

func (g *RecGun) Shoot(a core.Ammo) {
	gid := Goid()
	name := AmmoName(a)
	tok := "" // the token the ammo itself carries ("<name>~<token>"); "" = drawn by the scenario
	if strings.Contains(name, "~") {
		_, tok = SplitTok(name)
	}
	obj := 0
	if !g.rec.Quiet {
		obj = ObjID(a)
	}
	g.rec.Emit(E{"ev": "ShootBegin", "gun": g.id, "gid": gid, "ammo": name, "tok": tok, "obj": obj})
	if FirstShotDelay > 0 && atomic.CompareAndSwapInt32(&g.started, 0, 1) {
		time.Sleep(FirstShotDelay)
	}
	defer g.rec.Emit(E{"ev": "ShootEnd", "gun": g.id, "gid": gid})
	g.inner.Shoot(a)
}

func (g *RecGun) WarmUp(opts *warmup.Options) (interface{}, error) {
	if w, ok := g.inner.(warmup.WarmedUp); ok {
		return w.WarmUp(opts)
	}
	return nil, nil
}

func (g *RecGun) Close() error {
	if c, ok := g.inner.(io.Closer); ok {
		return c.Close()
	}
	return nil
}

// RecAggregator records (goroutine, tag, proto code) of every reported sample BEFORE handing
// it to the real aggregator (which may recycle the sample through its sync.Pool).
type RecAggregator struct {
	Inner core.Aggregator
	Rec   *Rec
}

func (a *RecAggregator) Run(ctx context.Context, deps core.AggregatorDeps) error {
	return a.Inner.Run(ctx, deps)
}

func (a *RecAggregator) Report(s core.Sample) {
	if ns, ok := s.(*netsample.Sample); ok && ns.Tags() == netsample.DiscardedShootTag {
		// the engine's own sample for a shot it skipped (discard_overflow): no gun was involved
		// (its errno field is set directly to DiscardedShootCodeError: phout writes a non-zero errno)
		a.Rec.Emit(E{"ev": "Discarded", "gid": Goid(), "tag": ns.Tags(), "code": ns.ProtoCode(), "err": true})
	} else if ok {
		// what the gun hands over, read on the gun's goroutine at the moment of the hand-over
		tag := ns.Tags()
		base := tag
		if i := strings.IndexByte(tag, '|'); i >= 0 {
			base = tag[:i] // marks added later (e.g. __EMPTY__) follow the step's own tag
		}
		a.Rec.Emit(E{"ev": "Sample", "gid": Goid(), "tag": tag, "base": base, "code": ns.ProtoCode(), "err": ns.Err() != nil})
	} else {
		a.Rec.Emit(E{"ev": "Sample", "gid": Goid(), "tag": "?", "code": -1})
	}
	a.Inner.Report(s)
}
