// Package grpctarget: recording in-process targets (gRPC TargetService with reflection, a
// minimal HTTP target) and recording decorators (gun factory, aggregator) used by the C20
// (grpcwire) and C11 (isolation) drivers.  Everything here only RECORDS; TLC decides.
package grpctarget

import (
	"bufio"
	"bytes"
	"encoding/json"
	"os"
	"runtime"
	"strconv"
	"sync"
	"time"
)

// Rec is an NDJSON event log.  The sequence number is taken and the line is written under one
// mutex, and every line is flushed at once: the file order is a linearisation consistent with
// happens-before, and a process killed by a runtime fatal leaves a complete prefix.
type Rec struct {
	// Quiet: events of the code under test are dropped WITHOUT touching the mutex, so that the
	// recorder adds no happens-before edges (race-monitor runs); Force still writes.
	Quiet bool
	mu    sync.Mutex
	f   *os.File
	w   *bufio.Writer
	seq int
	t0  time.Time
}

func NewRec(path string, appendMode bool) *Rec {
	flags := os.O_CREATE | os.O_WRONLY
	if appendMode {
		flags |= os.O_APPEND
	} else {
		flags |= os.O_TRUNC
	}
	f, err := os.OpenFile(path, flags, 0o644)
	if err != nil {
		panic(err)
	}
	return &Rec{f: f, w: bufio.NewWriter(f), t0: time.Now()}
}

// E is one event.
type E map[string]interface{}

func (r *Rec) Emit(e E) {
	if r.Quiet {
		return
	}
	r.Force(e)
}

// Force writes the event even in quiet mode (run framing written by the driver itself).
func (r *Rec) Force(e E) {
	r.mu.Lock()
	defer r.mu.Unlock()
	r.seq++
	e["seq"] = r.seq
	e["ms"] = int(time.Since(r.t0) / time.Millisecond) // payload only (diagnostics, slow-machine guard), never order
	b, err := json.Marshal(e)
	if err != nil {
		panic(err)
	}
	r.w.Write(b)
	r.w.WriteByte('\n')
	r.w.Flush()
}

func (r *Rec) Count() int { r.mu.Lock(); defer r.mu.Unlock(); return r.seq }

func (r *Rec) Close() {
	r.mu.Lock()
	defer r.mu.Unlock()
	r.w.Flush()
	r.f.Close()
}

// Goid returns the id of the calling goroutine (diagnostic payload and Shoot/Report attribution:
// the engine calls Gun.Shoot and, inside it, Aggregator.Report on the instance goroutine).
func Goid() int {
	var buf [64]byte
	n := runtime.Stack(buf[:], false)
	b := bytes.TrimPrefix(buf[:n], []byte("goroutine "))
	i := bytes.IndexByte(b, ' ')
	if i < 0 {
		return -1
	}
	id, err := strconv.Atoi(string(b[:i]))
	if err != nil {
		return -1
	}
	return id
}
