package grpctarget

import (
	"context"
	"crypto/ecdsa"
	"crypto/elliptic"
	"crypto/rand"
	"crypto/sha256"
	"crypto/tls"
	"crypto/x509"
	"crypto/x509/pkix"
	"encoding/hex"
	"encoding/json"
	"math/big"
	"net"
	"sort"
	"strconv"
	"strings"
	"sync/atomic"
	"time"

	"github.com/yandex/pandora/examples/grpc/server"
	"google.golang.org/grpc"
	"google.golang.org/grpc/codes"
	"google.golang.org/grpc/credentials"
	"google.golang.org/grpc/metadata"
	"google.golang.org/grpc/reflection"
	"google.golang.org/grpc/stats"
	"google.golang.org/grpc/status"
	"google.golang.org/protobuf/encoding/protojson"
	"google.golang.org/protobuf/proto"
)

// Target implements the repository's example TargetService (examples/grpc/server) with server
// reflection enabled and records, for every unary call, the full method name, the decoded
// request message (proto3 JSON with the .proto field names; default-valued fields are absent)
// and the incoming metadata minus the entries grpc itself adds.
type Target struct {
	// FailShare: a share of Auth / Order calls (decided by the token in the request) is answered so that
	// an assert/response postprocessor fails: token%5 == 0 -> status error; token%5 == 1 -> OK without
	// the asserted payload content.
	FailShare bool
	server.UnimplementedTargetServiceServer
	rec      *Rec
	name     string
	slowFor  time.Duration
	waitFor  time.Duration
	track    bool
	received int64
	srv      *grpc.Server
	Addr     string
	answers  atomic.Value // map[string]codes.Code: entry name -> the status this target answers its calls with
}

// StatusByName: the gRPC status names the case generator uses.
var StatusByName = map[string]codes.Code{"OK": codes.OK, "CANCELLED": codes.Canceled, "UNKNOWN": codes.Unknown,
	"INVALID_ARGUMENT": codes.InvalidArgument, "DEADLINE_EXCEEDED": codes.DeadlineExceeded, "NOT_FOUND": codes.NotFound,
	"ALREADY_EXISTS": codes.AlreadyExists, "PERMISSION_DENIED": codes.PermissionDenied, "RESOURCE_EXHAUSTED": codes.ResourceExhausted,
	"FAILED_PRECONDITION": codes.FailedPrecondition, "ABORTED": codes.Aborted, "OUT_OF_RANGE": codes.OutOfRange,
	"UNIMPLEMENTED": codes.Unimplemented, "INTERNAL": codes.Internal, "UNAVAILABLE": codes.Unavailable, "DATA_LOSS": codes.DataLoss,
	"UNAUTHENTICATED": codes.Unauthenticated}

// SetAnswers: calls of the named entries (the name is the part before the first '.' of the constant prefix of the
// entry's string fields / metadata values, e.g. "e12" in "e12.name~5012") are answered with that status.
func (t *Target) SetAnswers(m map[string]codes.Code) { t.answers.Store(m) }

func (t *Target) answerFor(pres []string) codes.Code {
	m, _ := t.answers.Load().(map[string]codes.Code)
	if len(m) == 0 {
		return codes.OK
	}
	for _, p := range pres {
		if i := strings.IndexByte(p, '.'); i > 0 {
			if c, ok := m[p[:i]]; ok {
				return c
			}
		}
	}
	return codes.OK
}

func ownMetadata(k string) bool {
	return k == ":authority" || k == "content-type" || k == "user-agent" || strings.HasPrefix(k, "grpc-")
}

// SplitTok is the value projection shared with the renderers: a value written as "<prefix>~<token>"
// is split at the last '~'; a value without '~' (integer fields) is all token.
func SplitTok(v string) (pre, tok string) {
	if i := strings.LastIndexByte(v, '~'); i >= 0 {
		return v[:i], v[i+1:]
	}
	return "", v
}

// Compact is the projection of LONG values shared with the renderers: a string of more than 160 bytes is logged as its
// first 40 bytes, its length and a SHA-256 digest of the whole -- equal projections mean equal strings (trusted: SHA-256).
func Compact(v string) string {
	if len(v) <= 160 {
		return v
	}
	h := sha256.Sum256([]byte(v))
	return v[:40] + "...#len=" + strconv.Itoa(len(v)) + "#sha256=" + hex.EncodeToString(h[:12])
}

func StartGRPC(rec *Rec) *Target { return StartGRPCNamed(rec, "target", true) }

// StartGRPCNamed: name goes into every Recv event ("srv"): "target" for the load target, "reflect" for a
// server that is configured as reflection endpoint only (reflect_port) but ALSO implements the service, so
// that load calls routed to it are visible.  withReflection = false: a target that cannot be reflected on.
func StartGRPCNamed(rec *Rec, name string, withReflection bool) *Target {
	return StartGRPCOpts(rec, GRPCOpts{Name: name, Reflection: withReflection})
}

// GRPCOpts: TrackConns records the server's view of connections (grpc stats.Handler: ConnBegin / ConnEnd with a
// connection id; every Recv and every reflection stream then carries the id of the connection it arrived on).
// Addr: listen there ("" = 127.0.0.1:0), so that a target can be stopped and started again on the same port.
// SlowFor: a Hello whose name starts with "slow" is answered after that long (or when the call is cancelled).
type GRPCOpts struct {
	Name       string
	Reflection bool
	TrackConns bool
	Addr       string
	SlowFor    time.Duration
	WaitFor    time.Duration // a Hello whose name starts with "wait" is answered after that long
	Rich       bool // also serve verif.MapService (rich.go): the JSON -> protobuf mapping classes
	TLS        bool // serve TLS with a self-signed certificate (the gun's `tls: true` does not verify it)
	// ReflNeeds: the reflection service only answers streams whose metadata carries these pairs (others: Unauthenticated)
	ReflNeeds map[string]string
}

// ReflKey: the metadata key the conformance runs use for reflection credentials (reflect_metadata); the target reports
// for every load call whether it carried that key -- it must not.
const ReflKey = "x-refl-auth"

func selfSigned() tls.Certificate {
	key, err := ecdsa.GenerateKey(elliptic.P256(), rand.Reader)
	if err != nil {
		panic(err)
	}
	tmpl := &x509.Certificate{SerialNumber: big.NewInt(1), Subject: pkix.Name{CommonName: "verif target"},
		NotBefore: time.Now().Add(-time.Hour), NotAfter: time.Now().Add(24 * time.Hour),
		KeyUsage: x509.KeyUsageDigitalSignature, ExtKeyUsage: []x509.ExtKeyUsage{x509.ExtKeyUsageServerAuth},
		IPAddresses: []net.IP{net.ParseIP("127.0.0.1")}, DNSNames: []string{"localhost"}}
	der, err := x509.CreateCertificate(rand.Reader, tmpl, tmpl, &key.PublicKey, key)
	if err != nil {
		panic(err)
	}
	return tls.Certificate{Certificate: [][]byte{der}, PrivateKey: key}
}

type connKey struct{}

var connSeq int64

type connStats struct{ t *Target }

func (h connStats) TagConn(ctx context.Context, _ *stats.ConnTagInfo) context.Context {
	return context.WithValue(ctx, connKey{}, int(atomic.AddInt64(&connSeq, 1)))
}
func (h connStats) HandleConn(ctx context.Context, s stats.ConnStats) {
	id, _ := ctx.Value(connKey{}).(int)
	switch s.(type) {
	case *stats.ConnBegin:
		h.t.rec.Emit(E{"ev": "ConnBegin", "srv": h.t.name, "conn": id})
	case *stats.ConnEnd:
		h.t.rec.Emit(E{"ev": "ConnEnd", "srv": h.t.name, "conn": id})
	}
}
func (h connStats) TagRPC(ctx context.Context, _ *stats.RPCTagInfo) context.Context { return ctx }
func (h connStats) HandleRPC(context.Context, stats.RPCStats)                       {}

func StartGRPCOpts(rec *Rec, o GRPCOpts) *Target {
	t := &Target{rec: rec, name: o.Name, slowFor: o.SlowFor, waitFor: o.WaitFor, track: o.TrackConns}
	opts := []grpc.ServerOption{grpc.UnaryInterceptor(t.intercept)}
	if o.TLS {
		opts = append(opts, grpc.Creds(credentials.NewTLS(&tls.Config{Certificates: []tls.Certificate{selfSigned()}})))
	}
	if o.TrackConns {
		opts = append(opts, grpc.StatsHandler(connStats{t}), grpc.StreamInterceptor(
			func(srv interface{}, ss grpc.ServerStream, info *grpc.StreamServerInfo, h grpc.StreamHandler) error {
				id, _ := ss.Context().Value(connKey{}).(int)
				md, _ := metadata.FromIncomingContext(ss.Context())
				auth := ""
				if v := md.Get(":authority"); len(v) > 0 {
					auth = v[0]
				}
				ok := true
				for k, want := range o.ReflNeeds {
					if v := md.Get(k); len(v) != 1 || v[0] != want {
						ok = false
					}
				}
				t.rec.Emit(E{"ev": "ReflCall", "srv": t.name, "conn": id, "method": info.FullMethod, "ok": ok,
					"reflmd": strings.Join(md.Get(ReflKey), ","), "authority": auth})
				if !ok {
					return status.Error(codes.Unauthenticated, "reflection needs credentials")
				}
				return h(srv, ss)
			}))
	}
	t.srv = grpc.NewServer(opts...)
	server.RegisterTargetServiceServer(t.srv, t)
	if o.Rich {
		t.registerRich(t.srv)
	}
	if o.Reflection {
		reflection.Register(t.srv)
	}
	addr := o.Addr
	if addr == "" {
		addr = "127.0.0.1:0"
	}
	var l net.Listener
	var err error
	for i := 0; i < 50; i++ { // a port that was just released may need a moment
		if l, err = net.Listen("tcp", addr); err == nil {
			break
		}
		time.Sleep(20 * time.Millisecond)
	}
	if err != nil {
		panic(err)
	}
	t.Addr = l.Addr().String()
	go func() { _ = t.srv.Serve(l) }()
	return t
}

func (t *Target) Stop() { t.srv.Stop() }

// Received: unary calls received so far.
func (t *Target) Received() int64 { return atomic.LoadInt64(&t.received) }

func (t *Target) intercept(ctx context.Context, req interface{}, info *grpc.UnaryServerInfo, h grpc.UnaryHandler) (interface{}, error) {
	if strings.HasPrefix(info.FullMethod, "/"+RichService+"/") {
		return t.interceptRich(ctx, req, info, h)
	}
	if md, ok := metadata.FromIncomingContext(ctx); ok && len(md.Get("x-case")) > 0 { // a case of the JSON mapping run
		return t.interceptRich(ctx, req, info, h)
	}
	msg := map[string]interface{}{}
	if pm, ok := req.(proto.Message); ok {
		b, err := protojson.MarshalOptions{UseProtoNames: true}.Marshal(pm)
		if err == nil {
			_ = json.Unmarshal(b, &msg)
		}
	}
	pres := []string{} // constant prefixes ("<entry>.<field>"): the entry a call belongs to
	toks := []string{} // the token part of every value written as "<prefix>~<token>"
	fields := []E{}
	names := make([]string, 0, len(msg))
	for k := range msg {
		names = append(names, k)
	}
	sort.Strings(names)
	for _, k := range names {
		v := msg[k]
		s, ok := v.(string) // strings and (proto3 JSON) int64 both arrive as JSON strings
		if !ok {
			b, _ := json.Marshal(v)
			s = string(b)
		}
		pre, tok := SplitTok(s)
		fields = append(fields, E{"f": k, "v": Compact(s), "pre": Compact(pre), "tok": tok})
		if pre != "" {
			toks = append(toks, tok)
			pres = append(pres, pre)
		}
	}
	mds := []E{}
	authority, reflmd := "", false
	if md, ok := metadata.FromIncomingContext(ctx); ok {
		if v := md.Get(":authority"); len(v) > 0 {
			authority = v[0]
		}
		reflmd = len(md.Get(ReflKey)) > 0
		keys := make([]string, 0, len(md))
		for k := range md {
			if !ownMetadata(k) {
				keys = append(keys, k)
			}
		}
		sort.Strings(keys)
		for _, k := range keys {
			if k == "x-prev" { // (isolation runs) the value a later scenario step carries from an earlier one: not this call's own token
				continue
			}
			for _, v := range md[k] {
				pre, tok := SplitTok(v)
				mds = append(mds, E{"k": k, "v": Compact(v), "pre": Compact(pre), "tok": tok})
				if pre != "" {
					toks = append(toks, tok)
					pres = append(pres, pre)
				}
			}
		}
	}
	// "/target.TargetService/Hello" -> "target.TargetService.Hello" (the form ammo uses)
	m := strings.Replace(strings.TrimPrefix(info.FullMethod, "/"), "/", ".", 1)
	atomic.AddInt64(&t.received, 1)
	conn := 0
	if t.track {
		conn, _ = ctx.Value(connKey{}).(int)
	}
	ans := t.answerFor(pres)
	// (isolation runs, FailShare) Auth is the step whose answer a later step quotes; Order carries it back in x-prev
	capStep, from, prev := "", "", ""
	if t.FailShare {
		switch {
		case strings.HasSuffix(m, ".Auth"):
			capStep = "c1"
		case strings.HasSuffix(m, ".Order"):
			from, prev = "c1", "<none>"
			if md, ok := metadata.FromIncomingContext(ctx); ok && len(md.Get("x-prev")) > 0 {
				_, prev = SplitTok(md.Get("x-prev")[0])
			}
		}
	}
	t.rec.Emit(E{"ev": "Recv", "proto": "grpc", "srv": t.name, "conn": conn, "method": m, "fields": fields, "md": mds, "toks": toks, "ans": ans.String(),
		"authority": authority, "reflmd": reflmd, "cap": capStep, "from": from, "prev": prev})
	if ans != codes.OK {
		return nil, status.Error(ans, "the target answers this entry with "+ans.String())
	}
	return h(ctx, req)
}

func (t *Target) Hello(ctx context.Context, r *server.HelloRequest) (*server.HelloResponse, error) {
	if t.slowFor > 0 && strings.HasPrefix(r.GetName(), "slow") {
		select {
		case <-time.After(t.slowFor):
		case <-ctx.Done():
			// the caller's deadline (propagated by grpc) is over: a real server's work is cancelled, it does not
			// answer OK at the very moment the deadline fires
			return nil, status.FromContextError(ctx.Err()).Err()
		}
	}
	if t.waitFor > 0 && strings.HasPrefix(r.GetName(), "wait") {
		select {
		case <-time.After(t.waitFor):
		case <-ctx.Done():
			return nil, status.FromContextError(ctx.Err()).Err()
		}
	}
	return &server.HelloResponse{Hello: "Hello " + r.GetName() + "!"}, nil
}

func (t *Target) failKind(v string) int {
	if !t.FailShare {
		return -1
	}
	_, tok := SplitTok(v)
	n, err := strconv.Atoi(tok)
	if err != nil {
		return -1
	}
	return n % 5
}

func (t *Target) Auth(ctx context.Context, r *server.AuthRequest) (*server.AuthResponse, error) {
	switch t.failKind(r.GetLogin()) {
	case 0:
		return nil, status.Error(codes.InvalidArgument, "invalid credentials")
	case 1:
		return &server.AuthResponse{UserId: 7}, nil // no token in the payload
	}
	return &server.AuthResponse{UserId: 7, Token: "tok-" + r.GetLogin()}, nil
}

func (t *Target) List(ctx context.Context, r *server.ListRequest) (*server.ListResponse, error) {
	return &server.ListResponse{Result: []*server.ListItem{{ItemId: 1}, {ItemId: 2}, {ItemId: 3}}}, nil
}

func (t *Target) Order(ctx context.Context, r *server.OrderRequest) (*server.OrderResponse, error) {
	if t.failKind(r.GetToken()) == 2 {
		return nil, status.Error(codes.NotFound, "no such item")
	}
	return &server.OrderResponse{OrderId: r.GetItemId() + 1}, nil
}

func (t *Target) Stats(ctx context.Context, r *server.StatsRequest) (*server.StatsResponse, error) {
	return &server.StatsResponse{Hello: 1}, nil
}

func (t *Target) Reset(ctx context.Context, r *server.ResetRequest) (*server.ResetResponse, error) {
	return &server.ResetResponse{}, nil
}
