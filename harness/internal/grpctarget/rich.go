package grpctarget

import (
	"context"
	"encoding/json"
	"fmt"
	"sort"
	"strconv"
	"strings"
	"sync"
	"sync/atomic"

	_ "github.com/yandex/pandora/examples/grpc/server" // registers target.proto
	"google.golang.org/grpc"
	"google.golang.org/grpc/metadata"
	"google.golang.org/protobuf/encoding/protojson"
	"google.golang.org/protobuf/proto"
	"google.golang.org/protobuf/reflect/protodesc"
	"google.golang.org/protobuf/reflect/protoreflect"
	"google.golang.org/protobuf/reflect/protoregistry"
	"google.golang.org/protobuf/types/descriptorpb"
	"google.golang.org/protobuf/types/dynamicpb"
	_ "google.golang.org/protobuf/types/known/anypb"
	_ "google.golang.org/protobuf/types/known/durationpb"
	_ "google.golang.org/protobuf/types/known/structpb"
	_ "google.golang.org/protobuf/types/known/timestamppb"
	_ "google.golang.org/protobuf/types/known/wrapperspb"
)

// verif.MapService (C20, JSON -> protobuf mapping classes): a second service served next to the example
// TargetService, described by a file descriptor built here (no generated code) and therefore visible to the gun
// only through server reflection -- exactly how the gun learns every input type.  Its methods take as INPUT
//   - the example service's own message types that have structure (StatsResponse: nested messages + int64;
//     StatisticBodyResponse: map<int64,uint64> + uint64; ListResponse: repeated message), and
//   - verif.Rich: one field per remaining proto3 JSON mapping class (32-bit ints, bool, double, enum, bytes,
//     repeated scalars / enums / messages, map<string,message>, a oneof, Timestamp, Duration, wrappers, Struct, Value).
// The handler decodes into a dynamicpb message and answers target.HelloResponse; the interceptor records the
// decoded message flattened into (path, canonical leaf text) pairs.

const RichService = "verif.MapService"

var (
	richOnce sync.Once
	richFile protoreflect.FileDescriptor
)

func sp(x string) *string { return &x }
func ip(x int32) *int32   { return &x }

func fld(name string, num int32, t descriptorpb.FieldDescriptorProto_Type, typeName string, rep bool) *descriptorpb.FieldDescriptorProto {
	f := &descriptorpb.FieldDescriptorProto{Name: sp(name), Number: ip(num), Type: t.Enum(), Label: descriptorpb.FieldDescriptorProto_LABEL_OPTIONAL.Enum()}
	if typeName != "" {
		f.TypeName = sp(typeName)
	}
	if rep {
		f.Label = descriptorpb.FieldDescriptorProto_LABEL_REPEATED.Enum()
	}
	return f
}

// RichMethods: method name -> fully qualified input type.
var RichMethods = map[string]string{
	"PutRich":  "verif.Rich",
	"PutStats": "target.StatsResponse",
	"PutList":  "target.ListResponse",
	"PutBody":  "target.StatisticBodyResponse",
}

func richDescriptor() protoreflect.FileDescriptor {
	richOnce.Do(func() {
		const (
			tStr   = descriptorpb.FieldDescriptorProto_TYPE_STRING
			tI64   = descriptorpb.FieldDescriptorProto_TYPE_INT64
			tU64   = descriptorpb.FieldDescriptorProto_TYPE_UINT64
			tI32   = descriptorpb.FieldDescriptorProto_TYPE_INT32
			tU32   = descriptorpb.FieldDescriptorProto_TYPE_UINT32
			tBool  = descriptorpb.FieldDescriptorProto_TYPE_BOOL
			tDbl   = descriptorpb.FieldDescriptorProto_TYPE_DOUBLE
			tEnum  = descriptorpb.FieldDescriptorProto_TYPE_ENUM
			tBytes = descriptorpb.FieldDescriptorProto_TYPE_BYTES
			tMsg   = descriptorpb.FieldDescriptorProto_TYPE_MESSAGE
		)
		mapEntry := &descriptorpb.DescriptorProto{Name: sp("LabelsEntry"), Options: &descriptorpb.MessageOptions{MapEntry: proto.Bool(true)},
			Field: []*descriptorpb.FieldDescriptorProto{fld("key", 1, tStr, "", false), fld("value", 2, tMsg, ".target.ListItem", false)}}
		rich := &descriptorpb.DescriptorProto{Name: sp("Rich"),
			Field: []*descriptorpb.FieldDescriptorProto{
				fld("s", 1, tStr, "", false), fld("i64", 2, tI64, "", false), fld("u64", 3, tU64, "", false),
				fld("i32", 4, tI32, "", false), fld("u32", 5, tU32, "", false), fld("b", 6, tBool, "", false),
				fld("d", 7, tDbl, "", false), fld("e", 8, tEnum, ".verif.Color", false), fld("raw", 9, tBytes, "", false),
				fld("item", 10, tMsg, ".target.ListItem", false), fld("nums", 11, tI64, "", true),
				fld("items", 12, tMsg, ".target.ListItem", true), fld("labels", 13, tMsg, ".verif.Rich.LabelsEntry", true),
				fld("o_s", 14, tStr, "", false), fld("o_i", 15, tI64, "", false), fld("o_m", 16, tMsg, ".target.ListItem", false),
				fld("ts", 17, tMsg, ".google.protobuf.Timestamp", false), fld("dur", 18, tMsg, ".google.protobuf.Duration", false),
				fld("w64", 19, tMsg, ".google.protobuf.Int64Value", false), fld("ws", 20, tMsg, ".google.protobuf.StringValue", false),
				fld("st", 21, tMsg, ".google.protobuf.Struct", false), fld("val", 22, tMsg, ".google.protobuf.Value", false),
				fld("es", 23, tEnum, ".verif.Color", true), fld("stats", 24, tMsg, ".target.StatisticBodyResponse", false),
				fld("snake_case", 25, tStr, "", false),
			},
			NestedType: []*descriptorpb.DescriptorProto{mapEntry},
			OneofDecl:  []*descriptorpb.OneofDescriptorProto{{Name: sp("choice")}},
		}
		for _, f := range rich.Field {
			if n := f.GetName(); n == "o_s" || n == "o_i" || n == "o_m" {
				f.OneofIndex = ip(0)
			}
		}
		svc := &descriptorpb.ServiceDescriptorProto{Name: sp("MapService")}
		names := make([]string, 0, len(RichMethods))
		for m := range RichMethods {
			names = append(names, m)
		}
		sort.Strings(names)
		for _, m := range names {
			svc.Method = append(svc.Method, &descriptorpb.MethodDescriptorProto{Name: sp(m), InputType: sp("." + RichMethods[m]), OutputType: sp(".target.HelloResponse")})
		}
		fdp := &descriptorpb.FileDescriptorProto{
			Name: sp("verifrich.proto"), Package: sp("verif"), Syntax: sp("proto3"),
			Dependency: []string{"target.proto", "google/protobuf/timestamp.proto", "google/protobuf/duration.proto",
				"google/protobuf/wrappers.proto", "google/protobuf/struct.proto"},
			MessageType: []*descriptorpb.DescriptorProto{rich},
			EnumType: []*descriptorpb.EnumDescriptorProto{{Name: sp("Color"), Value: []*descriptorpb.EnumValueDescriptorProto{
				{Name: sp("COLOR_UNSPECIFIED"), Number: ip(0)}, {Name: sp("RED"), Number: ip(1)}, {Name: sp("GREEN"), Number: ip(2)}}}},
			Service: []*descriptorpb.ServiceDescriptorProto{svc},
		}
		fd, err := protodesc.NewFile(fdp, protoregistry.GlobalFiles)
		if err != nil {
			panic(err)
		}
		// the reflection service resolves symbols through the global registry
		if err := protoregistry.GlobalFiles.RegisterFile(fd); err != nil {
			panic(err)
		}
		richFile = fd
	})
	return richFile
}

// registerRich adds verif.MapService to the server.
func (t *Target) registerRich(srv *grpc.Server) {
	fd := richDescriptor()
	sd := fd.Services().ByName("MapService")
	desc := grpc.ServiceDesc{ServiceName: RichService, HandlerType: (*interface{})(nil), Metadata: "verifrich.proto"}
	for i := 0; i < sd.Methods().Len(); i++ {
		md := sd.Methods().Get(i)
		in := md.Input()
		full := "/" + RichService + "/" + string(md.Name())
		desc.Methods = append(desc.Methods, grpc.MethodDesc{MethodName: string(md.Name()),
			Handler: func(_ interface{}, ctx context.Context, dec func(interface{}) error, ic grpc.UnaryServerInterceptor) (interface{}, error) {
				msg := dynamicpb.NewMessage(in)
				if err := dec(msg); err != nil {
					return nil, err
				}
				h := func(ctx context.Context, req interface{}) (interface{}, error) {
					out := dynamicpb.NewMessage(md.Output())
					out.Set(md.Output().Fields().ByName("hello"), protoreflect.ValueOfString("ok"))
					return out, nil
				}
				if ic == nil {
					return h(ctx, msg)
				}
				return ic(ctx, msg, &grpc.UnaryServerInfo{FullMethod: full}, h)
			}})
	}
	srv.RegisterService(&desc, t)
}

// Flatten projects a decoded message (as protojson prints it, .proto field names) onto (path, leaf text) pairs:
// members "a.b", repeated elements "a[0]", map entries "a.<key>"; leaves are the JSON scalar's text (a string's
// content, a number's literal, true / false / null); a present message without content is the leaf "{}", an empty
// list (only inside Struct / Value) "[]".
func Flatten(m proto.Message) ([]E, string) {
	b, err := protojson.MarshalOptions{UseProtoNames: true}.Marshal(m)
	if err != nil {
		return []E{{"p": "!marshal", "v": err.Error()}}, ""
	}
	dec := json.NewDecoder(strings.NewReader(string(b)))
	dec.UseNumber()
	var v interface{}
	if err := dec.Decode(&v); err != nil {
		return []E{{"p": "!json", "v": err.Error()}}, string(b)
	}
	out := []E{}
	var walk func(p string, x interface{}, top bool)
	walk = func(p string, x interface{}, top bool) {
		switch y := x.(type) {
		case map[string]interface{}:
			if len(y) == 0 {
				if !top {
					out = append(out, E{"p": p, "v": "{}"})
				}
				return
			}
			keys := make([]string, 0, len(y))
			for k := range y {
				keys = append(keys, k)
			}
			sort.Strings(keys)
			for _, k := range keys {
				q := k
				if p != "" {
					q = p + "." + k
				}
				walk(q, y[k], false)
			}
		case []interface{}:
			if len(y) == 0 {
				out = append(out, E{"p": p, "v": "[]"})
			}
			for i, e := range y {
				walk(p+"["+strconv.Itoa(i)+"]", e, false)
			}
		case string:
			out = append(out, E{"p": p, "v": y})
		case json.Number:
			out = append(out, E{"p": p, "v": y.String()})
		case bool:
			out = append(out, E{"p": p, "v": strconv.FormatBool(y)})
		case nil:
			out = append(out, E{"p": p, "v": "null"})
		default:
			out = append(out, E{"p": p, "v": fmt.Sprint(y)})
		}
	}
	walk("", v, true)
	return out, string(b)
}

// interceptRich records one call of verif.MapService.
func (t *Target) interceptRich(ctx context.Context, req interface{}, info *grpc.UnaryServerInfo, h grpc.UnaryHandler) (interface{}, error) {
	leaves, canon := []E{}, ""
	if pm, ok := req.(proto.Message); ok {
		leaves, canon = Flatten(pm)
	}
	cs := ""
	mds := []E{}
	if md, ok := metadata.FromIncomingContext(ctx); ok {
		if v := md.Get("x-case"); len(v) > 0 {
			cs = v[0]
		}
		for k, vs := range md {
			if !ownMetadata(k) && k != "x-case" {
				mds = append(mds, E{"k": k, "n": len(vs)})
			}
		}
	}
	m := strings.Replace(strings.TrimPrefix(info.FullMethod, "/"), "/", ".", 1)
	atomic.AddInt64(&t.received, 1)
	t.rec.Emit(E{"ev": "RecvRich", "srv": t.name, "method": m, "case": cs, "leaves": leaves, "canon": canon, "md": mds})
	return h(ctx, req)
}
