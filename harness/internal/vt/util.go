package vt

import (
	"bytes"
	"encoding/json"
	"io"
)

func bytesReader(b []byte) io.Reader { return bytes.NewReader(b) }

func Int(v interface{}) int {
	switch x := v.(type) {
	case json.Number:
		n, err := x.Int64()
		if err != nil {
			panic(err)
		}
		return int(n)
	case float64:
		return int(x)
	case int:
		return x
	}
	panic("vt.Int: not a number")
}

func Str(v interface{}) string {
	s, _ := v.(string)
	return s
}

func Bool(v interface{}) bool {
	b, _ := v.(bool)
	return b
}

func List(v interface{}) []interface{} {
	l, _ := v.([]interface{})
	return l
}

func Map(v interface{}) map[string]interface{} {
	m, _ := v.(map[string]interface{})
	return m
}
