// Package vt: trace I/O shared by all drivers.  Drivers only RECORD what the real code
// did (NDJSON, one object per line); they never decide a verdict.
package vt

import (
	"bufio"
	"encoding/json"
	"fmt"
	"math/big"
	"os"
	"strconv"
	"sync"
)

// Limbs renders a non-negative integer as little-endian base-10^4 limbs (TLC integers are
// 32 bit and ndJsonDeserialize wraps silently, so nanoseconds never travel as JSON numbers).
func Limbs(n int64) []int {
	if n < 0 {
		panic("vt.Limbs: negative")
	}
	out := []int{}
	for n > 0 {
		out = append(out, int(n%10000))
		n /= 10000
	}
	return out
}

func LimbsBig(n *big.Int) []int {
	out := []int{}
	x := new(big.Int).Set(n)
	b := big.NewInt(10000)
	m := new(big.Int)
	for x.Sign() > 0 {
		x.DivMod(x, b, m)
		out = append(out, int(m.Int64()))
	}
	return out
}

// Small asserts that a logged number fits a TLC integer.
func Small(n int64) int {
	if n >= 1<<31 || n < -(1<<31) {
		panic(fmt.Sprintf("vt.Small: %d does not fit a TLC integer", n))
	}
	return int(n)
}

type Writer struct {
	mu sync.Mutex
	f  *os.File
	w  *bufio.Writer
	n  int
}

func Create(path string) *Writer {
	f, err := os.Create(path)
	if err != nil {
		panic(err)
	}
	return &Writer{f: f, w: bufio.NewWriterSize(f, 1<<20)}
}

func (w *Writer) Emit(v interface{}) {
	b, err := json.Marshal(v)
	if err != nil {
		panic(err)
	}
	w.mu.Lock()
	w.w.Write(b)
	w.w.WriteByte('\n')
	w.n++
	w.mu.Unlock()
}

func (w *Writer) Count() int { w.mu.Lock(); defer w.mu.Unlock(); return w.n }

func (w *Writer) Close() {
	w.mu.Lock()
	defer w.mu.Unlock()
	w.w.Flush()
	w.f.Close()
}

func Seed() int64 {
	s, err := strconv.ParseInt(os.Getenv("VERIF_SEED"), 10, 64)
	if err != nil {
		return 1
	}
	return s
}

// ReadNDJSON reads a case file produced by TLC (ndJsonSerialize) into generic maps.
func ReadNDJSON(path string) []map[string]interface{} {
	f, err := os.Open(path)
	if err != nil {
		panic(err)
	}
	defer f.Close()
	sc := bufio.NewScanner(f)
	sc.Buffer(make([]byte, 1<<20), 1<<28)
	var out []map[string]interface{}
	for sc.Scan() {
		if len(sc.Bytes()) == 0 {
			continue
		}
		var m map[string]interface{}
		d := json.NewDecoder(bytesReader(sc.Bytes()))
		d.UseNumber()
		if err := d.Decode(&m); err != nil {
			panic(fmt.Sprintf("bad case line %q: %v", sc.Text(), err))
		}
		out = append(out, m)
	}
	return out
}
