package targets

import (
	"crypto/tls"
	"io"
	"log"
	"net"
	"net/http"
	"net/http/httptest"
	"sync"
)

// ProxyTarget is an in-process CONNECT proxy: it records every CONNECT it receives (request line target, Host,
// whether the client spoke TLS to it), answers with the programmed status and - for 200 - relays the tunnel
// byte for byte to ONE fixed origin (a recording HTTP/HTTPS target), one origin connection per tunnel.
type ProxyTarget struct {
	Name   string
	Srv    *httptest.Server
	rec    *Recorder
	origin string
	status int
	mu     sync.Mutex
	conns  []net.Conn
}

func (p *ProxyTarget) Addr() string { return p.Srv.Listener.Addr().String() }

// NewProxy starts a proxy (plain or TLS towards the client) that tunnels to origin; status is its answer to CONNECT.
func NewProxy(name string, useTLS bool, origin string, status int, rec *Recorder) *ProxyTarget {
	p := &ProxyTarget{Name: name, rec: rec, origin: origin, status: status}
	p.Srv = httptest.NewUnstartedServer(http.HandlerFunc(p.handle))
	p.Srv.Config.ErrorLog = log.New(io.Discard, "", 0)
	if useTLS {
		p.Srv.TLS = &tls.Config{NextProtos: []string{"http/1.1"}}
		p.Srv.StartTLS()
	} else {
		p.Srv.Start()
	}
	return p
}

func (p *ProxyTarget) Close() {
	p.mu.Lock()
	for _, c := range p.conns {
		_ = c.Close()
	}
	p.mu.Unlock()
	p.Srv.CloseClientConnections()
	p.Srv.Close()
}

func (p *ProxyTarget) handle(w http.ResponseWriter, r *http.Request) {
	e := Event{Ev: "Connect", Server: p.Name, Conn: r.RemoteAddr, TLS: r.TLS != nil, Method: r.Method, URI: r.RequestURI, Host: r.Host}
	if r.Method != http.MethodConnect || p.status != http.StatusOK {
		p.rec.add(e)
		st := p.status
		if r.Method != http.MethodConnect {
			st = http.StatusMethodNotAllowed
		}
		w.WriteHeader(st)
		return
	}
	toOrigin, err := net.Dial("tcp", p.origin)
	if err != nil {
		p.rec.add(e)
		w.WriteHeader(http.StatusBadGateway)
		return
	}
	e.Origin = toOrigin.LocalAddr().String()
	p.rec.add(e)
	conn, buf, err := w.(http.Hijacker).Hijack()
	if err != nil {
		panic(err)
	}
	p.mu.Lock()
	p.conns = append(p.conns, conn, toOrigin)
	p.mu.Unlock()
	_, _ = io.WriteString(conn, "HTTP/1.1 200 Connection established\r\n\r\n")
	go func() {
		// bytes the client sent right after CONNECT (none with pandora today) go first
		if n := buf.Reader.Buffered(); n > 0 {
			b, _ := buf.Reader.Peek(n)
			_, _ = toOrigin.Write(b)
		}
		_, _ = io.Copy(toOrigin, conn)
		_ = toOrigin.Close()
	}()
	go func() {
		_, _ = io.Copy(conn, toOrigin)
		_ = conn.Close()
	}()
}
