// Package targets: in-process targets shared by the wire / coding drivers (C09, C10).
//
// Everything here only RECORDS what arrived (request line, Host, headers, body, RemoteAddr,
// ConnState transitions) or plays a programmed answer (status / reset / stall / truncated body /
// refused port / gRPC status).  No verdict is taken here.
//
// Ordering: every event gets a sequence number taken under the Recorder's mutex.  ConnState(New)
// is called by net/http on the accept goroutine before the serving goroutine of the connection is
// started; Active/Idle/Closed and the handler run on the serving goroutine of that connection, so
// for one connection the sequence numbers follow program order.  Events of different connections
// are concurrent and nothing in the specifications orders them.
package targets

import (
	"context"
	"crypto/tls"
	"fmt"
	"io"
	"log"
	"net"
	"net/http"
	"net/http/httptest"
	"sort"
	"strconv"
	"strings"
	"sync"
	"syscall"
	"time"
)

// Header is one received header field with all its values in arrival order.
type Header struct {
	N string   `json:"n"`
	V []string `json:"v"`
}

// Event is one thing a target saw.
type Event struct {
	Seq    int      `json:"seq"`
	Ev     string   `json:"ev"`     // "Req" | "Conn" | "Connect" (a CONNECT seen by a proxy target)
	Server string   `json:"server"` // name given to the server ("target", "decoy", ...)
	Conn   string   `json:"conn"`   // RemoteAddr of the connection
	State  string   `json:"state,omitempty"`
	TLS    bool     `json:"tls"`
	Method string   `json:"method,omitempty"`
	URI    string   `json:"uri,omitempty"` // RequestURI exactly as on the request line
	Host   string   `json:"host,omitempty"`
	Hdr    []Header `json:"hdr,omitempty"` // sorted by name
	TE     []string `json:"te,omitempty"`  // Transfer-Encoding as parsed by net/http
	CL     int64    `json:"cl,omitempty"`
	Body   string   `json:"body,omitempty"`
	Proto  string   `json:"proto,omitempty"`
	SNI    string   `json:"sni,omitempty"`    // "Req": server name of the TLS handshake of the connection ("" without TLS / SNI)
	Origin string   `json:"origin,omitempty"` // "Connect": local address of the proxy's connection to the origin (= the origin's RemoteAddr)
}

// Recorder collects the events of all servers attached to it under one sequence.
type Recorder struct {
	mu  sync.Mutex
	seq int
	evs []Event
}

func (r *Recorder) add(e Event) {
	r.mu.Lock()
	r.seq++
	e.Seq = r.seq
	r.evs = append(r.evs, e)
	r.mu.Unlock()
}

// Drain returns the events recorded since the last Drain.
func (r *Recorder) Drain() []Event {
	r.mu.Lock()
	defer r.mu.Unlock()
	out := r.evs
	r.evs = nil
	return out
}

// Behaviour is the programmed answer of an HTTP target.
type Behaviour struct {
	Kind   string // "status" (default) | "reset" | "stall" | "truncate"
	Status int    // for status / truncate
}

// HTTPTarget is a recording httptest server.
type HTTPTarget struct {
	Name string
	Srv  *httptest.Server
	rec  *Recorder
	mu   sync.Mutex
	beh  Behaviour
	cb   func(uri string)
	stop chan struct{}
}

// Addr is host:port of the listener.
func (t *HTTPTarget) Addr() string { return t.Srv.Listener.Addr().String() }

// Set programs the answer for the following requests.
func (t *HTTPTarget) Set(b Behaviour) { t.mu.Lock(); t.beh = b; t.mu.Unlock() }

// OnReq installs a callback invoked (on the serving goroutine) for every request after it has been recorded.
func (t *HTTPTarget) OnReq(f func(uri string)) { t.mu.Lock(); t.cb = f; t.mu.Unlock() }
func (t *HTTPTarget) onReq() func(string)      { t.mu.Lock(); defer t.mu.Unlock(); return t.cb }

func (t *HTTPTarget) behaviour() Behaviour { t.mu.Lock(); defer t.mu.Unlock(); return t.beh }

// Close releases stalled handlers and stops the server.
func (t *HTTPTarget) Close() {
	close(t.stop)
	t.Srv.CloseClientConnections()
	t.Srv.Close()
}

// NewHTTP starts a recording HTTP (useTLS=false) or HTTPS (useTLS=true, HTTP/1.1 only) server on loopback.
func NewHTTP(name string, useTLS bool, rec *Recorder) *HTTPTarget {
	t := &HTTPTarget{Name: name, rec: rec, stop: make(chan struct{})}
	t.Srv = httptest.NewUnstartedServer(http.HandlerFunc(t.handle))
	t.Srv.Config.ConnState = func(c net.Conn, s http.ConnState) {
		rec.add(Event{Ev: "Conn", Server: name, Conn: c.RemoteAddr().String(), State: s.String(), TLS: useTLS})
	}
	t.Srv.Config.ErrorLog = log.New(io.Discard, "", 0) // resets and client-side closes are part of the programme
	if useTLS {
		t.Srv.TLS = &tls.Config{NextProtos: []string{"http/1.1"}}
		t.Srv.StartTLS()
	} else {
		t.Srv.Start()
	}
	return t
}

// NewHTTP2 starts a recording HTTPS server on loopback that offers HTTP/2 (ALPN h2) as well as HTTP/1.1.
func NewHTTP2(name string, rec *Recorder) *HTTPTarget {
	t := &HTTPTarget{Name: name, rec: rec, stop: make(chan struct{})}
	t.Srv = httptest.NewUnstartedServer(http.HandlerFunc(t.handle))
	t.Srv.Config.ConnState = func(c net.Conn, s http.ConnState) {
		rec.add(Event{Ev: "Conn", Server: name, Conn: c.RemoteAddr().String(), State: s.String(), TLS: true})
	}
	t.Srv.Config.ErrorLog = log.New(io.Discard, "", 0)
	t.Srv.EnableHTTP2 = true
	t.Srv.StartTLS()
	return t
}

func bodyAllowed(status int) bool {
	return !(status >= 100 && status <= 199 || status == 204 || status == 304)
}

func (t *HTTPTarget) handle(w http.ResponseWriter, r *http.Request) {
	body, _ := io.ReadAll(r.Body)
	e := Event{Ev: "Req", Server: t.Name, Conn: r.RemoteAddr, TLS: r.TLS != nil, Method: r.Method, URI: r.RequestURI,
		Host: r.Host, TE: r.TransferEncoding, CL: r.ContentLength, Body: string(body), Proto: r.Proto}
	if r.TLS != nil {
		e.SNI = r.TLS.ServerName
	}
	names := make([]string, 0, len(r.Header))
	for n := range r.Header {
		names = append(names, n)
	}
	sort.Strings(names)
	for _, n := range names {
		e.Hdr = append(e.Hdr, Header{N: n, V: append([]string{}, r.Header[n]...)})
	}
	t.rec.add(e)
	if cb := t.onReq(); cb != nil {
		cb(r.RequestURI)
	}
	b := t.behaviour()
	// a request may carry its own answer: /__beh/<kind>/<status>/...
	if rest, ok := strings.CutPrefix(r.URL.Path, "/__beh/"); ok {
		parts := strings.Split(rest, "/")
		b = Behaviour{Kind: parts[0]}
		if b.Kind == "truncated" {
			b.Kind = "truncate"
		}
		if len(parts) > 1 {
			b.Status, _ = strconv.Atoi(parts[1])
		}
	}
	switch b.Kind {
	case "", "status":
		st := b.Status
		if st == 0 {
			st = 200
		}
		w.WriteHeader(st)
		if bodyAllowed(st) && r.Method != "HEAD" {
			_, _ = io.WriteString(w, "ok\n")
		}
	case "reset":
		hj, ok := w.(http.Hijacker)
		if !ok {
			panic("targets: cannot hijack")
		}
		c, _, err := hj.Hijack()
		if err != nil {
			panic(err)
		}
		var nc net.Conn = c
		if tc, ok := c.(*tls.Conn); ok {
			nc = tc.NetConn()
		}
		if tcp, ok := nc.(*net.TCPConn); ok {
			_ = tcp.SetLinger(0) // close sends RST
		}
		_ = nc.Close()
	case "resetbody":
		// status line, headers and a part of the declared body, then the connection is RESET
		st := b.Status
		if st == 0 {
			st = 200
		}
		w.Header().Set("Content-Length", "64")
		w.WriteHeader(st)
		_, _ = io.WriteString(w, "short")
		if f, ok := w.(http.Flusher); ok {
			f.Flush()
		}
		c, _, err := w.(http.Hijacker).Hijack()
		if err != nil {
			panic(err)
		}
		var nc net.Conn = c
		if tc, ok := c.(*tls.Conn); ok {
			nc = tc.NetConn()
		}
		if tcp, ok := nc.(*net.TCPConn); ok {
			_ = tcp.SetLinger(0)
		}
		_ = nc.Close()
	case "delay":
		// a complete answer, but not at once (the exchange is in flight for a while)
		select {
		case <-time.After(150 * time.Millisecond):
		case <-t.stop:
		}
		w.WriteHeader(200)
		_, _ = io.WriteString(w, "ok\n")
	case "sleepms":
		// a complete 200 answer after <status> milliseconds (at least)
		select {
		case <-time.After(time.Duration(b.Status) * time.Millisecond):
		case <-t.stop:
		}
		w.WriteHeader(200)
		_, _ = io.WriteString(w, "ok\n")
	case "stall":
		// answer nothing until the client gave up (it closes the connection) or the target is closed
		select {
		case <-r.Context().Done():
		case <-t.stop:
		case <-time.After(30 * time.Second):
		}
	case "truncate":
		st := b.Status
		if st == 0 {
			st = 200
		}
		w.Header().Set("Content-Length", "64")
		w.WriteHeader(st)
		_, _ = io.WriteString(w, "short")
		if f, ok := w.(http.Flusher); ok {
			f.Flush()
		}
		hj := w.(http.Hijacker)
		c, _, err := hj.Hijack()
		if err == nil {
			_ = c.Close()
		}
	default:
		panic("targets: unknown behaviour " + b.Kind)
	}
}

// RefusedPort is a loopback TCP port that is bound but not listening: connecting to it is refused, and
// nobody else can take the port while it is held.
type RefusedPort struct {
	fd   int
	Addr string
}

func NewRefusedPort() (*RefusedPort, error) {
	fd, err := syscall.Socket(syscall.AF_INET, syscall.SOCK_STREAM, 0)
	if err != nil {
		return nil, err
	}
	sa := &syscall.SockaddrInet4{Port: 0, Addr: [4]byte{127, 0, 0, 1}}
	if err := syscall.Bind(fd, sa); err != nil {
		_ = syscall.Close(fd)
		return nil, err
	}
	got, err := syscall.Getsockname(fd)
	if err != nil {
		_ = syscall.Close(fd)
		return nil, err
	}
	p := got.(*syscall.SockaddrInet4).Port
	return &RefusedPort{fd: fd, Addr: fmt.Sprintf("127.0.0.1:%d", p)}, nil
}

func (r *RefusedPort) Close() { _ = syscall.Close(r.fd) }

// HostOnly strips the port.
func HostOnly(addr string) string {
	h, _, err := net.SplitHostPort(addr)
	if err != nil {
		return addr
	}
	return h
}

// IsLoopback guards the drivers against ever leaving the machine.
func IsLoopback(addr string) bool {
	return strings.HasPrefix(addr, "127.0.0.1:") || strings.HasPrefix(addr, "[::1]:")
}

var _ = context.Background
