package targets

import (
	"context"
	"net"
	"strconv"
	"strings"
	"sync"
	"time"

	"github.com/yandex/pandora/examples/grpc/server"
	"google.golang.org/grpc"
	"google.golang.org/grpc/codes"
	"google.golang.org/grpc/reflection"
	"google.golang.org/grpc/status"
)

// GRPCTarget implements the repository's example TargetService (examples/grpc/server) with server
// reflection.  Hello answers with the status the request itself asks for: name "code:<n>" (or "code:<n>/<label>") makes the
// call end with status.Error(codes.Code(n)) (n = 0: a normal HelloResponse); name "stall" is never answered
// before the caller has given up.  Every call is counted.
type GRPCTarget struct {
	server.UnimplementedTargetServiceServer
	srv   *grpc.Server
	lis   net.Listener
	mu    sync.Mutex
	calls []string // "Hello:<name>" in arrival order
	stop  chan struct{}
	cb    func(name string)
}

func NewGRPC() (*GRPCTarget, error) {
	l, err := net.Listen("tcp", "127.0.0.1:0")
	if err != nil {
		return nil, err
	}
	t := &GRPCTarget{srv: grpc.NewServer(), lis: l, stop: make(chan struct{})}
	server.RegisterTargetServiceServer(t.srv, t)
	reflection.Register(t.srv)
	go func() { _ = t.srv.Serve(l) }()
	return t, nil
}

// OnCall installs a callback invoked for every Hello call after it has been counted.
func (t *GRPCTarget) OnCall(f func(name string)) { t.mu.Lock(); t.cb = f; t.mu.Unlock() }
func (t *GRPCTarget) onCall() func(string)       { t.mu.Lock(); defer t.mu.Unlock(); return t.cb }

func (t *GRPCTarget) Addr() string { return t.lis.Addr().String() }
func (t *GRPCTarget) Close()       { close(t.stop); t.srv.Stop() }

// Calls returns and clears the calls seen so far.
func (t *GRPCTarget) Calls() []string {
	t.mu.Lock()
	defer t.mu.Unlock()
	out := t.calls
	t.calls = nil
	return out
}

func (t *GRPCTarget) Hello(ctx context.Context, req *server.HelloRequest) (*server.HelloResponse, error) {
	t.mu.Lock()
	t.calls = append(t.calls, "Hello:"+req.GetName())
	t.mu.Unlock()
	if cb := t.onCall(); cb != nil {
		cb(req.GetName())
	}
	if rest, ok := strings.CutPrefix(req.GetName(), "slow/"); ok { // a normal answer, but not at once
		select {
		case <-time.After(150 * time.Millisecond):
		case <-t.stop:
		}
		return &server.HelloResponse{Hello: "Hello " + rest + "!"}, nil
	}
	if req.GetName() == "stall" {
		// Answer nothing while the caller may still be waiting.  ctx is NOT a signal for that: gRPC propagates the
		// caller's deadline, so ctx fires here at the very moment the caller's own timer does, and an answer sent
		// then can overtake the caller's DeadlineExceeded.  Only the end of the target (or 30 s) releases the handler.
		select {
		case <-t.stop:
		case <-time.After(30 * time.Second):
		}
		return nil, status.Error(codes.Aborted, "stalled")
	}
	if rest, ok := strings.CutPrefix(req.GetName(), "code:"); ok {
		rest, _, _ = strings.Cut(rest, "/") // "code:<n>/<label>": the label only identifies the caller's step
		n, err := strconv.Atoi(rest)
		if err != nil {
			return nil, status.Error(codes.Internal, "targets: bad code request")
		}
		if n != 0 {
			return nil, status.Error(codes.Code(n), "programmed status")
		}
	}
	return &server.HelloResponse{Hello: "Hello " + req.GetName() + "!"}, nil
}
