package scentarget

// H2RawTarget: an HTTP/2 server over TLS written on the frame level (C19, the http2 guns).  Every request names, in its
// x-letter header, what the peer does to it:
//
//	h2goaway    GOAWAY (ENHANCE_YOUR_CALM, last stream = this one: "processed", so the client may not re-send it), then the
//	            connection is closed - no response
//	h2rst       RST_STREAM (INTERNAL_ERROR) instead of a response; the connection stays usable
//	h2rstmid    HEADERS 200 and a part of the body, then RST_STREAM (CANCEL)
//	h2badframe  a DATA frame on stream 0 (a connection error for the client), then the connection is closed
//	h2hpackbad  a HEADERS frame whose block is not HPACK
//	h2flood     2000 empty SETTINGS frames and 2000 PINGs, then a well-formed response
//	s<code>, shorthdr, notjson, anything else   a well-formed response (as the net/http based target gives)
import (
	"bytes"
	"crypto/tls"
	"fmt"
	"io"
	"net"
	"net/http/httptest"
	"strconv"
	"strings"
	"sync"
	"sync/atomic"

	"golang.org/x/net/http2"
	"golang.org/x/net/http2/hpack"
)

type H2RawTarget struct {
	ln       net.Listener
	Requests atomic.Int64
	mu       sync.Mutex
	conns    map[net.Conn]struct{}
}

func NewH2RawTarget() *H2RawTarget {
	ts := httptest.NewUnstartedServer(nil) // only for its self-signed certificate
	ts.StartTLS()
	cert := ts.TLS.Certificates[0]
	ts.Close()
	ln, err := tls.Listen("tcp", "127.0.0.1:0", &tls.Config{Certificates: []tls.Certificate{cert}, NextProtos: []string{"h2"}})
	if err != nil {
		panic(err)
	}
	t := &H2RawTarget{ln: ln, conns: map[net.Conn]struct{}{}}
	go t.accept()
	return t
}

func (t *H2RawTarget) Addr() string { return t.ln.Addr().String() }

func (t *H2RawTarget) Close() {
	t.ln.Close()
	t.mu.Lock()
	for c := range t.conns {
		c.Close()
	}
	t.mu.Unlock()
}

func (t *H2RawTarget) accept() {
	for {
		c, err := t.ln.Accept()
		if err != nil {
			return
		}
		t.mu.Lock()
		t.conns[c] = struct{}{}
		t.mu.Unlock()
		go t.serve(c)
	}
}

func (t *H2RawTarget) serve(c net.Conn) {
	defer func() {
		c.Close()
		t.mu.Lock()
		delete(t.conns, c)
		t.mu.Unlock()
	}()
	preface := make([]byte, len(http2.ClientPreface))
	if _, err := io.ReadFull(c, preface); err != nil || string(preface) != http2.ClientPreface {
		return
	}
	fr := http2.NewFramer(c, c)
	fr.ReadMetaHeaders = hpack.NewDecoder(4096, nil)
	fr.MaxHeaderListSize = 1 << 20
	if fr.WriteSettings() != nil {
		return
	}
	var hbuf bytes.Buffer
	enc := hpack.NewEncoder(&hbuf)
	letters := map[uint32]string{}                   // streams whose request body is still coming
	respond := func(id uint32, letter string) bool { // false: the connection is over
		t.Requests.Add(1)
		headers := func(status int, tok string, end bool) error {
			hbuf.Reset()
			enc.WriteField(hpack.HeaderField{Name: ":status", Value: strconv.Itoa(status)})
			enc.WriteField(hpack.HeaderField{Name: "content-type", Value: "application/json"})
			enc.WriteField(hpack.HeaderField{Name: "x-tok", Value: tok})
			return fr.WriteHeaders(http2.HeadersFrameParam{StreamID: id, BlockFragment: hbuf.Bytes(), EndHeaders: true, EndStream: end})
		}
		switch letter {
		case "h2goaway":
			fr.WriteGoAway(id, http2.ErrCodeEnhanceYourCalm, []byte("scripted"))
			return false
		case "h2rst":
			return fr.WriteRSTStream(id, http2.ErrCodeInternal) == nil
		case "h2rstmid":
			if headers(200, longTok, false) != nil || fr.WriteData(id, false, []byte(`{"tok":"j`)) != nil {
				return false
			}
			return fr.WriteRSTStream(id, http2.ErrCodeCancel) == nil
		case "h2badframe":
			fr.WriteData(0, false, []byte("data on stream zero"))
			return false
		case "h2hpackbad":
			fr.WriteHeaders(http2.HeadersFrameParam{StreamID: id, BlockFragment: []byte{0xff, 0xff, 0xff, 0xff, 0xff, 0xff, 0x00, 0x80, 0x80}, EndHeaders: true, EndStream: true})
			return false
		case "h2flood":
			for i := 0; i < 2000; i++ {
				if fr.WriteSettings() != nil || fr.WritePing(false, [8]byte{1, 2, 3, 4, 5, 6, 7, byte(i)}) != nil {
					return false
				}
			}
		}
		status, tok, body := 200, longTok, goodBody
		if len(letter) == 4 && letter[0] == 's' && strings.Trim(letter[1:], "0123456789") == "" {
			fmt.Sscanf(letter[1:], "%d", &status)
		}
		switch letter {
		case "shorthdr":
			tok = "ab"
		case "notjson":
			body = "<<<tok: this is { not json"
		}
		if headers(status, tok, false) != nil {
			return false
		}
		return fr.WriteData(id, true, []byte(body)) == nil
	}
	for {
		f, err := fr.ReadFrame()
		if err != nil {
			return
		}
		switch f := f.(type) {
		case *http2.SettingsFrame:
			if !f.IsAck() && fr.WriteSettingsAck() != nil {
				return
			}
		case *http2.PingFrame:
			if !f.IsAck() && fr.WritePing(true, f.Data) != nil {
				return
			}
		case *http2.MetaHeadersFrame:
			letter := ""
			for _, h := range f.Fields {
				if h.Name == "x-letter" {
					letter = h.Value
				}
			}
			if !f.StreamEnded() {
				letters[f.StreamID] = letter
				continue
			}
			if !respond(f.StreamID, letter) {
				return
			}
		case *http2.DataFrame:
			if n := uint32(len(f.Data())); n > 0 { // give the flow-control credit back
				fr.WriteWindowUpdate(0, n)
				fr.WriteWindowUpdate(f.StreamID, n)
			}
			if f.StreamEnded() {
				letter := letters[f.StreamID]
				delete(letters, f.StreamID)
				if !respond(f.StreamID, letter) {
					return
				}
			}
		case *http2.GoAwayFrame:
			return
		}
	}
}
