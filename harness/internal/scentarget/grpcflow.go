package scentarget

// GrpcFlowTarget: pandora's example TargetService (with reflection) whose Hello method plays the scripted target of
// the C15 flow cases for the grpc/scenario gun.  It numbers the calls in the order in which they arrive (k, under the
// mutex that guards the log), logs for every call the call's name, the rendered variable and where it was rendered
// (HelloRequest.name = "<call>:<value>" -> payload; metadata x-val -> meta), and replies hello = "g<k>", so that a
// later call which renders request.<call>.postprocessor.hello shows WHICH reply it came from.

import (
	"context"
	"fmt"
	"net"
	"strings"
	"sync"
	"time"

	"github.com/yandex/pandora/examples/grpc/server"
	"google.golang.org/grpc"
	"google.golang.org/grpc/codes"
	"google.golang.org/grpc/metadata"
	"google.golang.org/grpc/reflection"
	"google.golang.org/grpc/status"
)

type GrpcFlowTarget struct {
	server.UnimplementedTargetServiceServer
	ln   net.Listener
	srv  *grpc.Server
	mu   sync.Mutex
	k    int
	sc   Script
	log  []Entry
	last time.Time
}

func NewGrpcFlowTarget() *GrpcFlowTarget {
	ln, err := net.Listen("tcp", "127.0.0.1:0")
	if err != nil {
		panic(err)
	}
	t := &GrpcFlowTarget{ln: ln}
	t.srv = grpc.NewServer()
	server.RegisterTargetServiceServer(t.srv, t)
	reflection.Register(t.srv)
	go t.srv.Serve(ln)
	return t
}

func (t *GrpcFlowTarget) Addr() string { return t.ln.Addr().String() }
func (t *GrpcFlowTarget) Close()       { t.srv.Stop() }

func (t *GrpcFlowTarget) ResetCase(sc Script) {
	t.mu.Lock()
	t.k, t.sc, t.log, t.last = 0, sc, nil, time.Time{}
	t.mu.Unlock()
}

func (t *GrpcFlowTarget) Log() []Entry {
	t.mu.Lock()
	defer t.mu.Unlock()
	return append([]Entry{}, t.log...)
}

func (t *GrpcFlowTarget) Hello(ctx context.Context, r *server.HelloRequest) (*server.HelloResponse, error) {
	name, val, _ := strings.Cut(r.GetName(), ":")
	t.mu.Lock()
	now := time.Now()
	t.k++
	k := t.k
	e := Entry{K: k, Req: name, Meth: "grpc", Val: Val{"none", 0}}
	if !t.last.IsZero() {
		e.Since = int(now.Sub(t.last) / time.Millisecond)
	}
	t.last = now
	if val != "" {
		e.At, e.Val = "payload", Project(val)
	} else if md, ok := metadata.FromIncomingContext(ctx); ok && len(md.Get("x-val")) > 0 && md.Get("x-val")[0] != "" {
		e.At, e.Val = "meta", Project(md.Get("x-val")[0])
	}
	t.log = append(t.log, e)
	sc := t.sc
	t.mu.Unlock()
	if sc.At == k && sc.Kind == "status" {
		return nil, status.Error(codes.NotFound, "scripted")
	}
	return &server.HelloResponse{Hello: fmt.Sprintf("g%d", k)}, nil
}
