package scentarget

// TLSTarget: a TLS server that DOES speak HTTP/2 (and HTTP/1.1) and answers every request with a well-formed 200 -
// and misbehaves on the HANDSHAKE level for a share of the connections (C19, letters tls*):
//
//	tlsalert    GetConfigForClient fails: the peer gets the fatal alert internal_error ("remote error: tls: internal error")
//	tlsclose    the server reads the ClientHello and closes the connection
//	tlsreset    the server sends its flight (ServerHello .. certificate .. Finished) and then resets the connection
//	tlstimeout  the server accepts and never says anything (every connection)
//
// Every response carries "Connection: close" (HTTP/2: GOAWAY after the response), so that handshakes happen throughout
// the run and not only at its start.  For the share letters every other handshake (the 1st, 3rd, ...) is hit.

import (
	"crypto/tls"
	"errors"
	"io"
	"log"
	"net"
	"net/http"
	"net/http/httptest"
	"strings"
	"sync"
	"sync/atomic"
	"time"
)

type TLSTarget struct {
	srv      *httptest.Server
	mode     atomic.Value // string
	n        atomic.Int64 // connections / handshakes seen in this mode
	Faults   atomic.Int64 // faults injected
	Requests atomic.Int64
	Hold     time.Duration
	mu       sync.Mutex
	held     map[net.Conn]struct{}
}

func NewTLSTarget() *TLSTarget {
	t := &TLSTarget{Hold: 3 * time.Second, held: map[net.Conn]struct{}{}}
	t.mode.Store("")
	t.srv = httptest.NewUnstartedServer(http.HandlerFunc(func(w http.ResponseWriter, r *http.Request) {
		t.Requests.Add(1)
		w.Header().Set("Connection", "close")
		w.Header().Set("Content-Type", "application/json")
		w.Header().Set("X-Tok", longTok)
		w.WriteHeader(200)
		io.WriteString(w, goodBody)
	}))
	t.srv.EnableHTTP2 = true
	t.srv.Listener = &faultListener{Listener: t.srv.Listener, t: t}
	t.srv.TLS = &tls.Config{GetConfigForClient: func(*tls.ClientHelloInfo) (*tls.Config, error) {
		if t.mode.Load().(string) == "tlsalert" && t.n.Add(1)%2 == 1 {
			t.Faults.Add(1)
			return nil, errors.New("scripted: terminator overloaded")
		}
		return nil, nil
	}}
	t.srv.Config.ErrorLog = log.New(io.Discard, "", 0) // handshake errors are the point, not news
	t.srv.StartTLS()
	return t
}

// Addr is host:port
func (t *TLSTarget) Addr() string { return strings.TrimPrefix(t.srv.URL, "https://") }

// SetMode starts a run with the given handshake letter ("" = behave)
func (t *TLSTarget) SetMode(letter string) {
	t.mode.Store(letter)
	t.n.Store(0)
	t.Faults.Store(0)
	t.Requests.Store(0)
}

func (t *TLSTarget) Close() {
	t.mu.Lock()
	for c := range t.held {
		c.Close()
	}
	t.mu.Unlock()
	t.srv.CloseClientConnections()
	t.srv.Close()
}

type faultListener struct {
	net.Listener
	t *TLSTarget
}

func (l *faultListener) Accept() (net.Conn, error) {
	c, err := l.Listener.Accept()
	if err != nil {
		return c, err
	}
	mode := l.t.mode.Load().(string)
	switch mode {
	case "tlsclose", "tlsreset":
		if l.t.n.Add(1)%2 == 1 {
			l.t.Faults.Add(1)
			return &faultConn{Conn: c, t: l.t, mode: mode}, nil
		}
	case "tlstimeout":
		l.t.Faults.Add(1)
		return &faultConn{Conn: c, t: l.t, mode: mode}, nil
	}
	return c, nil
}

// faultConn is what the TLS server sees instead of the accepted connection
type faultConn struct {
	net.Conn
	t     *TLSTarget
	mode  string
	wrote atomic.Bool
}

func (c *faultConn) Write(b []byte) (int, error) {
	c.wrote.Store(true)
	return c.Conn.Write(b)
}

func (c *faultConn) Read(b []byte) (int, error) {
	switch c.mode {
	case "tlsclose":
		// take the ClientHello off the wire, then hang up
		c.Conn.SetReadDeadline(time.Now().Add(2 * time.Second))
		c.Conn.Read(b)
		c.Conn.Close()
		return 0, io.EOF
	case "tlsreset":
		if c.wrote.Load() { // the server's flight (incl. certificate) is out: reset instead of reading the client's Finished
			if tc, ok := c.Conn.(*net.TCPConn); ok {
				tc.SetLinger(0)
			}
			c.Conn.Close()
			return 0, io.ErrUnexpectedEOF
		}
	case "tlstimeout":
		c.t.mu.Lock()
		c.t.held[c.Conn] = struct{}{}
		c.t.mu.Unlock()
		time.Sleep(c.t.Hold)
		c.t.mu.Lock()
		delete(c.t.held, c.Conn)
		c.t.mu.Unlock()
		c.Conn.Close()
		return 0, io.EOF
	}
	return c.Conn.Read(b)
}
