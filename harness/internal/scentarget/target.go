// Package scentarget: in-process targets for the scenario checks (C15, C19).
//
// Target is an HTTP/1.1 server scripted per case.  It numbers the requests in the order in which they
// reach it (arrival number k, taken under the mutex that also guards the log), answers with tokens that
// name k ("j<k>" in a JSON body, "h<k>" in a header, "x<k>" in an HTML div) so that a later request which
// renders a captured variable shows WHICH response it came from, and logs what it saw of every request
// (request name, the rendered variable and where it was rendered).  It only records; nothing is decided here.
package scentarget

import (
	"context"
	"fmt"
	"io"
	"net"
	"net/http"
	"regexp"
	"strings"
	"sync"
	"sync/atomic"
	"time"
)

// Val is the abstract reading of a rendered variable: "r3" -> {r 3}; "" -> {none 0}; "<no value>" -> {novalue 0}.
type Val struct {
	T string `json:"t"`
	N int    `json:"n"`
}

var specialRe = regexp.MustCompile(`^r([0-9]{1,6})(<|&lt;)$`)
var valRe = regexp.MustCompile(`^([a-z])([0-9]{1,6})$`)
var numRe = regexp.MustCompile(`^1([0-9]{6})$`) // the JSON number 1000000 + n

func Project(s string) Val {
	s = strings.TrimSpace(s)
	if s == "" {
		return Val{"none", 0}
	}
	if s == "<no value>" {
		return Val{"novalue", 0}
	}
	if m := specialRe.FindStringSubmatch(s); m != nil { // rows that end in a character html/template escapes: r0< / r0&lt;
		n := 0
		fmt.Sscanf(m[1], "%d", &n)
		return Val{"r" + m[2], n}
	}
	if m := numRe.FindStringSubmatch(s); m != nil {
		n := 0
		fmt.Sscanf(m[1], "%d", &n)
		return Val{"n", n}
	}
	if m := valRe.FindStringSubmatch(s); m != nil {
		n := 0
		fmt.Sscanf(m[2], "%d", &n)
		return Val{m[1], n}
	}
	return Val{"raw:" + s, 0}
}

type Entry struct {
	K     int    `json:"k"`
	Req   string `json:"req"`
	Val   Val    `json:"val"`
	At    string `json:"at"`
	Since int    `json:"since"` // whole milliseconds since the previous arrival (0 for the first)
	Meth  string `json:"meth"`
	Fresh bool   `json:"fresh"` // first request on its connection
}

type connCtrKey struct{}
type connCtr struct{ n int32 }

type Script struct {
	Kind string // ok | transport | status | trunc | eof
	At   int
}

type Target struct {
	conns map[net.Conn]struct{}
	cmu   sync.Mutex
	ln    net.Listener
	srv   *http.Server
	mu    sync.Mutex
	k     int
	sc    Script
	log   []Entry
	last  time.Time
}

func NewTarget() *Target {
	ln, err := net.Listen("tcp", "127.0.0.1:0")
	if err != nil {
		panic(err)
	}
	t := &Target{ln: ln, conns: map[net.Conn]struct{}{}}
	t.srv = &http.Server{Handler: http.HandlerFunc(t.handle), ConnContext: func(ctx context.Context, _ net.Conn) context.Context {
		return context.WithValue(ctx, connCtrKey{}, &connCtr{})
	}, ConnState: func(c net.Conn, st http.ConnState) {
		t.cmu.Lock()
		defer t.cmu.Unlock()
		switch st {
		case http.StateNew:
			t.conns[c] = struct{}{}
		case http.StateClosed, http.StateHijacked:
			delete(t.conns, c)
		}
	}}
	go t.srv.Serve(ln)
	return t
}

func (t *Target) Addr() string { return t.ln.Addr().String() }
func (t *Target) Close()       { t.srv.Close() }

// DropConns closes the connections of the finished case (the guns keep them alive; thousands of cases
// would otherwise exhaust the descriptor table).
func (t *Target) DropConns() {
	t.cmu.Lock()
	for c := range t.conns {
		c.Close()
	}
	t.cmu.Unlock()
}

// Reset starts a new case.
func (t *Target) Reset(sc Script) {
	t.DropConns()
	t.mu.Lock()
	t.k, t.sc, t.log, t.last = 0, sc, nil, time.Time{}
	t.mu.Unlock()
}

func (t *Target) Log() []Entry {
	t.mu.Lock()
	defer t.mu.Unlock()
	return append([]Entry{}, t.log...)
}

func (t *Target) handle(w http.ResponseWriter, r *http.Request) {
	body, _ := io.ReadAll(r.Body)
	fresh := false
	if cc, ok := r.Context().Value(connCtrKey{}).(*connCtr); ok {
		fresh = atomic.AddInt32(&cc.n, 1) == 1
	}
	t.mu.Lock()
	now := time.Now()
	t.k++
	k := t.k
	e := Entry{K: k, Req: r.Header.Get("X-Req"), Meth: r.Method, Val: Val{"none", 0}, Fresh: fresh}
	if !t.last.IsZero() {
		e.Since = int(now.Sub(t.last) / time.Millisecond)
	}
	t.last = now
	switch {
	case len(r.Header["Url"]) > 0: // (presence: html/template renders a missing variable as nothing)
		e.At, e.Val = "hurl", Project(r.Header.Get("Url"))
	case len(r.Header["Body"]) > 0:
		e.At, e.Val = "hbody", Project(r.Header.Get("Body"))
		if string(body) != "lit=1" { // record what arrived instead of the configured literal body
			e.At = "hbody+body=" + string(body)
		}
	case r.URL.Query().Has("v"):
		e.At, e.Val = "uri", Project(r.URL.Query().Get("v"))
	case len(r.Header["X-Val"]) > 0:
		e.At, e.Val = "hdr", Project(r.Header.Get("X-Val"))
	case strings.HasPrefix(string(body), "v="):
		e.At, e.Val = "body", Project(strings.TrimPrefix(string(body), "v="))
	}
	t.log = append(t.log, e)
	sc := t.sc
	t.mu.Unlock()

	hit := sc.At == k
	if sc.Kind == "rowmod" { // content-driven: the row rendered into the URI has parity At
		hit = e.At == "uri" && e.Val.T == "r" && e.Val.N%2 == sc.At
	}
	if hit && sc.Kind == "transport" {
		// a status line, then the connection dies: the client has read bytes of a response, so the
		// transport does not transparently retry the request on a fresh connection
		hj, ok := w.(http.Hijacker)
		if !ok {
			panic("no hijacker")
		}
		c, _, err := hj.Hijack()
		if err == nil {
			c.Write([]byte("HTTP/1.1 200 OK\r\n"))
			c.Close()
		}
		return
	}
	if hit && sc.Kind == "eof" {
		// the request has been taken completely; the connection is closed cleanly without one response byte
		hj, ok := w.(http.Hijacker)
		if !ok {
			panic("no hijacker")
		}
		if c, _, err := hj.Hijack(); err == nil {
			c.Close()
		}
		return
	}
	if sc.Kind == "eof" && sc.At == k+1 {
		// the next arrival is the one that gets no answer: make it come on a fresh connection, where net/http never
		// re-sends by itself
		w.Header().Set("Connection", "close")
	}
	if hit && sc.Kind == "trunc" {
		// status line and headers are fine, the body ends before its Content-Length
		hj, ok := w.(http.Hijacker)
		if !ok {
			panic("no hijacker")
		}
		c, _, err := hj.Hijack()
		if err == nil {
			fmt.Fprintf(c, "HTTP/1.1 200 OK\r\nContent-Type: application/json\r\nX-Tok: h%d\r\nContent-Length: 100\r\n\r\n{\"tok\":", k)
			c.Close()
		}
		return
	}
	status := 200
	if hit && (sc.Kind == "status" || sc.Kind == "rowmod") {
		status = 418
	}
	switch r.Header.Get("X-Cap") {
	case "json":
		w.Header().Set("Content-Type", "application/json")
		w.WriteHeader(status)
		fmt.Fprintf(w, `{"tok":"j%d","list":["j%d"]}`, k, k)
	case "jsonnum":
		w.Header().Set("Content-Type", "application/json")
		w.WriteHeader(status)
		fmt.Fprintf(w, `{"num":%d,"nums":[%d]}`, 1000000+k, 1000000+k)
	case "hdr":
		w.Header().Set("X-Tok", fmt.Sprintf("h%d", k))
		w.WriteHeader(status)
		io.WriteString(w, "ok")
	case "xpath":
		w.Header().Set("Content-Type", "text/html")
		w.WriteHeader(status)
		fmt.Fprintf(w, `<html><body><p>hello</p><div id="tok">x%d</div></body></html>`, k)
	default:
		w.WriteHeader(status)
		io.WriteString(w, "ok")
	}
}
