package scentarget

// WktService (C19): a second service of GrpcTarget whose methods answer OK with a reply whose TYPE is one of protobuf's
// well-known types - google.protobuf.Empty ("no result"), Timestamp, Duration, the wrappers, Struct, ListValue, Any.  A client built on dynamic messages gets the GENERATED Go type for those from its message factory, not a
// dynamic message, and their JSON form is special-cased (a string, a number, an arbitrary JSON value).  The service
// exists only as a descriptor built here (registered in the global registry, so that server reflection serves it with
// its google/protobuf/*.proto dependencies); every method takes google.protobuf.Empty.
//
// letter (spec/Responses.tla WktLetters) -> method -> reply:
//   wempty  Ping  Empty                 wtime   Now   Timestamp           wdur    Wait  Duration
//   wstring Greet StringValue("Hello wstring")                            wint64  Count Int64Value
//   wbool   Flag  BoolValue             wbytes  Blob  BytesValue          wstruct Obj   Struct{greeting: "Hello wstruct", n: 1}
//   wlist   List  ListValue[1, "x"]     wany    Box   Any(Duration)
// (Value(null) and FieldMask are left out: whether their JSON form counts as an object is a quirk of the dynamic-message
// library, not something the protobuf JSON mapping pins.)

import (
	"context"
	"sync"

	"google.golang.org/grpc"
	"google.golang.org/protobuf/proto"
	"google.golang.org/protobuf/reflect/protodesc"
	"google.golang.org/protobuf/reflect/protoregistry"
	"google.golang.org/protobuf/types/descriptorpb"
	"google.golang.org/protobuf/types/known/anypb"
	"google.golang.org/protobuf/types/known/durationpb"
	"google.golang.org/protobuf/types/known/emptypb"
	"google.golang.org/protobuf/types/known/structpb"
	"google.golang.org/protobuf/types/known/timestamppb"
	"google.golang.org/protobuf/types/known/wrapperspb"
)

type wktMethod struct {
	Letter, Method, Type string
	Reply                func() proto.Message
}

var wktMethods = []wktMethod{
	{"wempty", "Ping", "Empty", func() proto.Message { return &emptypb.Empty{} }},
	{"wtime", "Now", "Timestamp", func() proto.Message { return &timestamppb.Timestamp{Seconds: 1700000000, Nanos: 5} }},
	{"wdur", "Wait", "Duration", func() proto.Message { return &durationpb.Duration{Seconds: 3, Nanos: 500} }},
	{"wstring", "Greet", "StringValue", func() proto.Message { return wrapperspb.String("Hello wstring") }},
	{"wint64", "Count", "Int64Value", func() proto.Message { return wrapperspb.Int64(1 << 60) }},
	{"wbool", "Flag", "BoolValue", func() proto.Message { return wrapperspb.Bool(true) }},
	{"wbytes", "Blob", "BytesValue", func() proto.Message { return wrapperspb.Bytes([]byte{0, 1, 0xff}) }},
	{"wstruct", "Obj", "Struct", func() proto.Message {
		s, _ := structpb.NewStruct(map[string]interface{}{"greeting": "Hello wstruct", "n": 1})
		return s
	}},
	{"wlist", "List", "ListValue", func() proto.Message {
		l, _ := structpb.NewList([]interface{}{1, "x"})
		return l
	}},
	{"wany", "Box", "Any", func() proto.Message {
		a, _ := anypb.New(&durationpb.Duration{Seconds: 1})
		return a
	}},
}

// WktCall: the full method name ("wkt.WktService.Ping") a letter of the well-known-type class is provoked with; "" if
// the letter is not of that class
func WktCall(letter string) string {
	for _, m := range wktMethods {
		if m.Letter == letter {
			return "wkt.WktService." + m.Method
		}
	}
	return ""
}

// WktLetters in the order of the table above
func WktLetters() []string {
	var out []string
	for _, m := range wktMethods {
		out = append(out, m.Letter)
	}
	return out
}

var wktOnce sync.Once

// registerWktFile builds wkt.proto and puts it into the global registry (which server reflection answers from)
func registerWktFile() {
	wktOnce.Do(func() {
		s := func(v string) *string { return &v }
		fdp := &descriptorpb.FileDescriptorProto{
			Name:    s("verif/wkt.proto"),
			Package: s("wkt"),
			Syntax:  s("proto3"),
			Dependency: []string{"google/protobuf/empty.proto", "google/protobuf/timestamp.proto", "google/protobuf/duration.proto",
				"google/protobuf/wrappers.proto", "google/protobuf/struct.proto", "google/protobuf/any.proto"},
		}
		svc := &descriptorpb.ServiceDescriptorProto{Name: s("WktService")}
		for _, m := range wktMethods {
			svc.Method = append(svc.Method, &descriptorpb.MethodDescriptorProto{Name: s(m.Method),
				InputType: s(".google.protobuf.Empty"), OutputType: s(".google.protobuf." + m.Type)})
		}
		fdp.Service = []*descriptorpb.ServiceDescriptorProto{svc}
		fd, err := protodesc.NewFile(fdp, protoregistry.GlobalFiles)
		if err != nil {
			panic("scentarget: wkt.proto: " + err.Error())
		}
		if err := protoregistry.GlobalFiles.RegisterFile(fd); err != nil {
			panic("scentarget: wkt.proto: " + err.Error())
		}
	})
}

func (t *GrpcTarget) registerWkt() {
	registerWktFile()
	sd := grpc.ServiceDesc{ServiceName: "wkt.WktService", HandlerType: (*interface{})(nil), Metadata: "verif/wkt.proto"}
	for _, m := range wktMethods {
		reply := m.Reply
		sd.Methods = append(sd.Methods, grpc.MethodDesc{MethodName: m.Method,
			Handler: func(_ interface{}, _ context.Context, dec func(interface{}) error, _ grpc.UnaryServerInterceptor) (interface{}, error) {
				if err := dec(&emptypb.Empty{}); err != nil {
					return nil, err
				}
				t.calls.Add(1)
				return reply(), nil
			}})
	}
	t.srv.RegisterService(&sd, t)
}
