package scentarget

// GrpcTarget: pandora's example TargetService (with server reflection, which the grpc guns need) whose
// Hello method misbehaves on request (C19): HelloRequest.name names the letter.
//   c<N>     answer with gRPC status code N (c0 = OK)
//   gbig     a 1 MB reply
//   gtoobig  a 6 MB reply (larger than the client's default 4 MB receive limit)
//   gslow    never answer: wait for the caller's deadline, then fail
//   gkill    close the TCP connection the call arrived on
//   gkillmid send the response headers, THEN close the TCP connection (the stream ends in the middle)
//   gempty   status OK with an EMPTY reply message (no field set)
//   ggarbage status OK with a message whose bytes are no HelloResponse (cannot be decoded)
//   w*       (a second service, wkt.WktService, see grpcwkt.go) status OK with a reply of a protobuf well-known type

import (
	"context"
	"fmt"
	"net"
	"strings"
	"sync"
	"sync/atomic"
	"time"

	"github.com/yandex/pandora/examples/grpc/server"
	"google.golang.org/grpc"
	"google.golang.org/grpc/codes"
	"google.golang.org/grpc/encoding"
	_ "google.golang.org/grpc/encoding/proto" // registers the proto codec that garbleCodec wraps
	"google.golang.org/grpc/metadata"
	"google.golang.org/grpc/peer"
	"google.golang.org/grpc/reflection"
	"google.golang.org/grpc/status"
)

type GrpcTarget struct {
	server.UnimplementedTargetServiceServer
	ln      *trackListener
	srv     *grpc.Server
	calls   atomic.Int64
	Default atomic.Value // string: letter of calls that name none (empty payload, no metadata)
	Hold    time.Duration
}

type trackListener struct {
	net.Listener
	mu    sync.Mutex
	conns map[string]net.Conn
}

func (l *trackListener) Accept() (net.Conn, error) {
	c, err := l.Listener.Accept()
	if err == nil {
		l.mu.Lock()
		l.conns[c.RemoteAddr().String()] = c
		l.mu.Unlock()
	}
	return c, err
}

func (l *trackListener) kill(remote string) {
	l.mu.Lock()
	c := l.conns[remote]
	delete(l.conns, remote)
	l.mu.Unlock()
	if c != nil {
		c.Close()
	}
}

// garbleCodec is the server's codec: the standard proto codec, except that the reply marked garbleMarker goes out as
// bytes that are no protobuf message at all
const garbleMarker = "\x00garble\x00"

type garbleCodec struct{ encoding.Codec }

func (c garbleCodec) Marshal(v interface{}) ([]byte, error) {
	if r, ok := v.(*server.HelloResponse); ok && r.GetHello() == garbleMarker {
		return []byte{0xff, 0xff, 0xff, 0xff, 0xff, 0xff, 0xff, 0xff, 0xff, 0xff, 0x7f, 0x00, 0x0a, 0xff}, nil
	}
	return c.Codec.Marshal(v)
}

func NewGrpcTarget() *GrpcTarget {
	ln, err := net.Listen("tcp", "127.0.0.1:0")
	if err != nil {
		panic(err)
	}
	t := &GrpcTarget{ln: &trackListener{Listener: ln, conns: map[string]net.Conn{}}, Hold: 300 * time.Millisecond}
	t.srv = grpc.NewServer(grpc.ForceServerCodec(garbleCodec{encoding.GetCodec("proto")}))
	server.RegisterTargetServiceServer(t.srv, t)
	t.registerWkt() // wkt.WktService: OK replies whose type is a protobuf well-known type (grpcwkt.go)
	reflection.Register(t.srv)
	go t.srv.Serve(t.ln)
	return t
}

func (t *GrpcTarget) Addr() string { return t.ln.Addr().String() }
func (t *GrpcTarget) Calls() int64 { return t.calls.Load() }
func (t *GrpcTarget) Close()       { t.srv.Stop() }

func (t *GrpcTarget) Hello(ctx context.Context, r *server.HelloRequest) (*server.HelloResponse, error) {
	t.calls.Add(1)
	// the letter: HelloRequest.name; for calls with an empty payload the metadata entry x-letter; else the target's default
	letter := r.GetName()
	if letter == "" {
		if md, ok := metadata.FromIncomingContext(ctx); ok && len(md.Get("x-letter")) > 0 {
			letter = md.Get("x-letter")[0]
		}
	}
	if letter == "" {
		letter, _ = t.Default.Load().(string)
	}
	switch {
	case len(letter) > 1 && letter[0] == 'c' && strings.Trim(letter[1:], "0123456789") == "":
		code := 0
		fmt.Sscanf(letter[1:], "%d", &code)
		if code != 0 {
			return nil, status.Error(codes.Code(code), "scripted "+letter)
		}
	case letter == "gbig":
		return &server.HelloResponse{Hello: "Hello " + strings.Repeat("x", 1<<20)}, nil
	case letter == "gtoobig":
		return &server.HelloResponse{Hello: "Hello " + strings.Repeat("x", 6<<20)}, nil
	case letter == "gslow":
		// never a reply: wait until the caller has given up (its deadline travels with the call), then
		// fail - whatever a starved client gets to see, it is not a success
		<-ctx.Done()
		return nil, status.Error(codes.DeadlineExceeded, "scripted gslow")
	case letter == "gempty":
		return &server.HelloResponse{}, nil
	case letter == "ggarbage":
		return &server.HelloResponse{Hello: garbleMarker}, nil
	case letter == "gkillmid":
		_ = grpc.SendHeader(ctx, metadata.Pairs("x-mid", "1"))
		if p, ok := peer.FromContext(ctx); ok {
			t.ln.kill(p.Addr.String())
		}
		return nil, status.Error(codes.Internal, "connection killed after the headers")
	case letter == "gkill":
		if p, ok := peer.FromContext(ctx); ok {
			t.ln.kill(p.Addr.String())
		}
		return nil, status.Error(codes.Internal, "connection killed")
	}
	return &server.HelloResponse{Hello: "Hello " + letter}, nil
}
