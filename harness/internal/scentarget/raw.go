package scentarget

// RawTarget is a raw TCP listener that misbehaves on request (C19).  Every request names, in its X-Letter
// header, the letter of the response alphabet (spec/Responses.tla) it wants to be answered with; the
// target writes exactly those bytes on the wire.  Letters that need the peer to be absent ("refused") are
// realised by the driver with a dead port.

import (
	"bufio"
	"bytes"
	"fmt"
	"net"
	"net/http"
	"strings"
	"sync"
	"sync/atomic"
	"time"
)

type RawTarget struct {
	ln       net.Listener
	requests atomic.Int64
	mu       sync.Mutex
	conns    map[net.Conn]struct{}
	closed   atomic.Bool
	echo     map[string]string // X-Case -> X-Val of the requests that carried both (under mu)
	BigSize  int
	Hold     time.Duration // how long "timeout" keeps the connection silent
	// Tunnel: what a CONNECT is answered with ("" = 200 Connection established): tunrefused (closed without an answer),
	// tun407, tungarbage (no status line), tunextra (200 and bytes behind it)
	Tunnel atomic.Value
}

func NewRawTarget() *RawTarget {
	t, err := NewRawTargetAt("127.0.0.1:0")
	if err != nil {
		panic(err)
	}
	return t
}

// NewRawTargetAt starts listening on a given address (a port that was free - refused - until now)
func NewRawTargetAt(addr string) (*RawTarget, error) {
	ln, err := net.Listen("tcp", addr)
	if err != nil {
		return nil, err
	}
	t := &RawTarget{ln: ln, conns: map[net.Conn]struct{}{}, echo: map[string]string{}, BigSize: 10 << 20, Hold: 2 * time.Second}
	go t.accept()
	return t, nil
}

func (t *RawTarget) Addr() string    { return t.ln.Addr().String() }
func (t *RawTarget) Requests() int64 { return t.requests.Load() }

// Echoed returns (and forgets) what the requests tagged X-Case: <prefix>... carried in X-Val.
func (t *RawTarget) Echoed(prefix string) map[string]string {
	t.mu.Lock()
	defer t.mu.Unlock()
	out := map[string]string{}
	for k, v := range t.echo {
		if strings.HasPrefix(k, prefix) {
			out[strings.TrimPrefix(k, prefix)] = v
			delete(t.echo, k)
		}
	}
	return out
}

// HvAlphabet: the header value of letter hv<n> is its first n bytes (distinct bytes: a substring names its position)
const HvAlphabet = "abcdefghijkl"

func (t *RawTarget) Close() {
	t.closed.Store(true)
	t.ln.Close()
	t.mu.Lock()
	for c := range t.conns {
		c.Close()
	}
	t.mu.Unlock()
}

func (t *RawTarget) accept() {
	for {
		c, err := t.ln.Accept()
		if err != nil {
			return
		}
		t.mu.Lock()
		t.conns[c] = struct{}{}
		t.mu.Unlock()
		go t.serve(c)
	}
}

var (
	bigOnce, hugeOnce   sync.Once
	bigBytes, hugeBytes []byte
)

// the two multi-megabyte responses are built once and shared by all targets of the process
func (t *RawTarget) bigResponse() []byte {
	bigOnce.Do(func() {
		pad := bytes.Repeat([]byte("x"), t.BigSize)
		bigBytes = okResponse(200, `{"tok":"j7","list":[1,2],"pad":"`+string(pad)+`"}`, longTok)
	})
	return bigBytes
}

func hugeHeaderResponse() []byte {
	hugeOnce.Do(func() {
		var b bytes.Buffer
		b.WriteString("HTTP/1.1 200 OK\r\nX-Big: ")
		b.Write(bytes.Repeat([]byte("h"), 12<<20))
		b.WriteString("\r\nContent-Length: 2\r\n\r\nok")
		hugeBytes = b.Bytes()
	})
	return hugeBytes
}

// AnnouncedLength: letters whose Content-Length header announces an absurd number of bytes (spec/Responses.tla
// AnnouncedLens: 2^62, 2^63-1, 2^63 = one more than int64 holds, 10^20); 25 bytes follow, then the peer hangs up
var AnnouncedLength = map[string]string{
	"cl2p62":  "4611686018427387904",
	"clmax64": "9223372036854775807",
	"cl2p63":  "9223372036854775808",
	"cl1e20":  "100000000000000000000",
}

const goodBody =`{"tok":"j7","list":[1,2]}`
const longTok = "h123456789012345"

func okResponse(code int, body string, tok string) []byte {
	var b bytes.Buffer
	fmt.Fprintf(&b, "HTTP/1.1 %d Status\r\nContent-Type: application/json\r\n", code)
	if tok != "" {
		fmt.Fprintf(&b, "X-Tok: %s\r\n", tok)
	}
	if code == 204 || code == 304 {
		b.WriteString("\r\n")
		return b.Bytes()
	}
	fmt.Fprintf(&b, "Content-Length: %d\r\n\r\n%s", len(body), body)
	return b.Bytes()
}

// serve answers the requests of one connection; returns (closing the connection) after letters that end it
func (t *RawTarget) serve(c net.Conn) {
	defer func() {
		c.Close()
		t.mu.Lock()
		delete(t.conns, c)
		t.mu.Unlock()
	}()
	br := bufio.NewReader(c)
	for {
		req, err := http.ReadRequest(br)
		if err != nil {
			return
		}
		if req.Body != nil {
			var sink bytes.Buffer
			sink.ReadFrom(req.Body)
		}
		if req.Method == "CONNECT" { // the connect gun's tunnel: established, the tunnelled requests follow
			mode, _ := t.Tunnel.Load().(string)
			switch mode {
			case "tunrefused":
				return
			case "tun407":
				c.Write([]byte("HTTP/1.1 407 Proxy Authentication Required\r\nProxy-Authenticate: Basic realm=\"x\"\r\nContent-Length: 0\r\n\r\n"))
				return
			case "tungarbage":
				c.Write([]byte("\x00\x01garbage instead of a status line\r\n\r\n"))
				return
			case "tunextra":
				c.Write([]byte("HTTP/1.1 200 Connection established\r\n\r\nSSH-2.0-not-http\r\n"))
				return
			}
			c.Write([]byte("HTTP/1.1 200 Connection established\r\n\r\n"))
			continue
		}
		t.requests.Add(1)
		letter := req.Header.Get("X-Letter")
		if cs := req.Header.Get("X-Case"); cs != "" {
			t.mu.Lock()
			t.echo[cs] = req.Header.Get("X-Val")
			t.mu.Unlock()
		}
		switch {
		case strings.HasPrefix(letter, "hv"):
			n := 0
			fmt.Sscanf(letter[2:], "%d", &n)
			if n > len(HvAlphabet) {
				n = len(HvAlphabet)
			}
			c.Write(okResponse(200, goodBody, HvAlphabet[:n]))
		case len(letter) == 4 && letter[0] == 's' && strings.Trim(letter[1:], "0123456789") == "":
			code := 200
			fmt.Sscanf(letter[1:], "%d", &code)
			c.Write(okResponse(code, goodBody, longTok))
		case letter == "early":
			c.Write([]byte("HTTP/1.1 103 Early Hints\r\nLink: </x>; rel=preload\r\n\r\n"))
			c.Write(okResponse(200, goodBody, longTok))
		case letter == "cont100": // an interim 100 Continue nobody asked for, then the response
			c.Write([]byte("HTTP/1.1 100 Continue\r\n\r\n"))
			c.Write(okResponse(200, goodBody, longTok))
		case letter == "many1xx": // more interim responses than any client puts up with
			for i := 0; i < 8; i++ {
				c.Write([]byte("HTTP/1.1 103 Early Hints\r\nLink: </x>; rel=preload\r\n\r\n"))
			}
			c.Write(okResponse(200, goodBody, longTok))
			return
		case letter == "upgrade": // 101 to a request that did not ask for an upgrade, then the peer hangs up
			c.Write([]byte("HTTP/1.1 101 Switching Protocols\r\nUpgrade: websocket\r\nConnection: Upgrade\r\nX-Tok: " + longTok + "\r\n\r\n"))
			return
		case letter == "chunkhuge":
			c.Write([]byte("HTTP/1.1 200 OK\r\nX-Tok: " + longTok + "\r\nTransfer-Encoding: chunked\r\n\r\nFFFFFFFFFFFFFFFFFFFF\r\n{\"tok\"\r\n0\r\n\r\n"))
			return
		case letter == "chunkneg":
			c.Write([]byte("HTTP/1.1 200 OK\r\nX-Tok: " + longTok + "\r\nTransfer-Encoding: chunked\r\n\r\n-5\r\n{\"tok\"\r\n0\r\n\r\n"))
			return
		case letter == "chunknocrlf": // the chunk data is not followed by CRLF
			c.Write([]byte("HTTP/1.1 200 OK\r\nX-Tok: " + longTok + "\r\nTransfer-Encoding: chunked\r\n\r\n5\r\n{\"tokXX5\r\nabcde\r\n0\r\n\r\n"))
			return
		case letter == "chunktrunc": // the stream ends inside a chunk
			c.Write([]byte("HTTP/1.1 200 OK\r\nX-Tok: " + longTok + "\r\nTransfer-Encoding: chunked\r\n\r\n40\r\n{\"tok\":\"j"))
			return
		case letter == "gzipraw" || letter == "gzipbad": // Content-Encoding: gzip, the body is not gzip
			garbage := "\x1f\x8b\x08\x00garbage that is no deflate stream \xff\xfe\x00\x01"
			fmt.Fprintf(c, "HTTP/1.1 200 OK\r\nX-Tok: %s\r\nContent-Encoding: gzip\r\nContent-Length: %d\r\n\r\n%s", longTok, len(garbage), garbage)
		case letter == "manyheaders": // a header block of 1.2 MB in 20 000 lines
			var b bytes.Buffer
			b.WriteString("HTTP/1.1 200 OK\r\nContent-Type: application/json\r\nX-Tok: " + longTok + "\r\n")
			for i := 0; i < 20000; i++ {
				fmt.Fprintf(&b, "X-Pad-%05d: %s\r\n", i, "0123456789012345678901234567890123456789012345")
			}
			fmt.Fprintf(&b, "Content-Length: %d\r\n\r\n%s", len(goodBody), goodBody)
			c.Write(b.Bytes())
		case letter == "dribble": // the response arrives in one-byte writes
			for _, by := range okResponse(200, goodBody, longTok) {
				c.Write([]byte{by})
			}
		case letter == "empty":
			c.Write([]byte("HTTP/1.1 200 OK\r\nX-Tok: " + longTok + "\r\nContent-Length: 0\r\n\r\n"))
		case letter == "big":
			c.Write(t.bigResponse())
		case letter == "notjson":
			c.Write(okResponse(200, "<<<tok: this is { not json", longTok))
		case letter == "jsonarr":
			c.Write(okResponse(200, `["tok", 1, {"tok": "nested"}]`, longTok))
		case letter == "nothtml":
			c.Write(okResponse(200, "\x00\x01\xff\xfe<<<>>>&&&;\x00<div id=<a<b", longTok))
		case letter == "shorthdr":
			c.Write(okResponse(200, goodBody, "ab"))
		case letter == "nohdr":
			c.Write(okResponse(200, goodBody, ""))
		case strings.HasPrefix(letter, "lst"): // what later steps index as a list: empty / one element / not a list at all
			list := map[string]string{"lst0": "[]", "lst1": "[5]", "lststr": `"abc"`, "lstnull": "null", "lstobj": "{}"}[letter]
			c.Write(okResponse(200, `{"tok":"j7","list":`+list+`}`, longTok))
		case letter == "trunc":
			c.Write([]byte("HTTP/1.1 200 OK\r\nX-Tok: " + longTok + "\r\nContent-Length: 100\r\n\r\n{\"tok\":\"j"))
			return
		case AnnouncedLength[letter] != "":
		// the ANNOUNCED length is the peer's number: absurd values (2^31 .. 2^63-1, and one that does not fit int64),
		// then a few bytes and a close - or, with a well-formed small body behind an absurd announcement, the same
		c.Write([]byte("HTTP/1.1 200 OK\r\nContent-Type: application/json\r\nX-Tok: " + longTok + "\r\nContent-Length: " + AnnouncedLength[letter] + "\r\n\r\n" + goodBody))
		return
	case letter == "badchunk":
			c.Write([]byte("HTTP/1.1 200 OK\r\nX-Tok: " + longTok + "\r\nTransfer-Encoding: chunked\r\n\r\nZZZ\r\n{\"tok\"\r\n"))
			return
		case letter == "badstatus":
			c.Write([]byte("HTP/1.1 abc nonsense\r\n\r\n"))
			return
		case letter == "badheader":
			c.Write([]byte("HTTP/1.1 200 OK\r\nthis line has no colon\r\n\x00\x01: x\r\n\r\nok"))
			return
		case letter == "hugeheader":
			c.Write(hugeHeaderResponse())
			return
		case letter == "closebefore":
			return
		case letter == "closeduring":
			c.Write([]byte("HTTP/1.1 200 OK\r\nContent-Le"))
			return
		case letter == "timeout":
			deadline := time.Now().Add(t.Hold)
			for time.Now().Before(deadline) && !t.closed.Load() {
				time.Sleep(10 * time.Millisecond)
			}
			return
		default:
			c.Write(okResponse(200, goodBody, longTok))
		}
	}
}
