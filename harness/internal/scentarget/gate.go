package scentarget

// Gate: a TCP front of a target that makes the target's AVAILABILITY change during a run (C19, letters av*).
//
//	up     connections are passed through to the backend
//	reset  the target is gone: established connections are reset, new ones are reset as soon as they are accepted
//	hole   the target black-holes: established connections are reset, new ones are accepted and never served
//
// The listener stays open in every mode, so the port cannot be lost to somebody else between the phases.  (A port on
// which really nothing listens - "connection refused" - is what Reserve / ListenAt are for.)

import (
	"io"
	"net"
	"sync"
	"sync/atomic"
)

type Gate struct {
	ln      net.Listener
	backend string
	mode    atomic.Value // string
	mu      sync.Mutex
	conns   map[net.Conn]struct{}
	Accepts atomic.Int64
	Downs   atomic.Int64 // connections that arrived while the target was not up
}

func NewGate(backend string) *Gate {
	ln, err := net.Listen("tcp", "127.0.0.1:0")
	if err != nil {
		panic(err)
	}
	g := &Gate{ln: ln, backend: backend, conns: map[net.Conn]struct{}{}}
	g.mode.Store("up")
	go g.accept()
	return g
}

func (g *Gate) Addr() string { return g.ln.Addr().String() }
func (g *Gate) Mode() string { return g.mode.Load().(string) }

func (g *Gate) track(c net.Conn) {
	g.mu.Lock()
	g.conns[c] = struct{}{}
	g.mu.Unlock()
}

func (g *Gate) untrack(c net.Conn) {
	g.mu.Lock()
	delete(g.conns, c)
	g.mu.Unlock()
}

func reset(c net.Conn) {
	if tc, ok := c.(*net.TCPConn); ok {
		tc.SetLinger(0)
	}
	c.Close()
}

// SetMode changes the availability; whatever was established or held in the previous mode is reset.
func (g *Gate) SetMode(m string) {
	g.mode.Store(m)
	g.mu.Lock()
	for c := range g.conns {
		reset(c)
	}
	g.conns = map[net.Conn]struct{}{}
	g.mu.Unlock()
}

func (g *Gate) Close() {
	g.ln.Close()
	g.SetMode("closed")
}

func (g *Gate) accept() {
	for {
		c, err := g.ln.Accept()
		if err != nil {
			return
		}
		g.Accepts.Add(1)
		switch g.Mode() {
		case "up":
			go g.pipe(c)
		case "hole":
			g.Downs.Add(1)
			g.track(c)
		default:
			g.Downs.Add(1)
			reset(c)
		}
	}
}

func (g *Gate) pipe(c net.Conn) {
	b, err := net.Dial("tcp", g.backend)
	if err != nil {
		reset(c)
		return
	}
	g.track(c)
	g.track(b)
	if g.Mode() != "up" { // the mode changed while we were dialling
		g.untrack(c)
		g.untrack(b)
		reset(c)
		reset(b)
		return
	}
	done := make(chan struct{}, 2)
	go func() { io.Copy(b, c); done <- struct{}{} }()
	go func() { io.Copy(c, b); done <- struct{}{} }()
	<-done
	c.Close()
	b.Close()
	<-done
	g.untrack(c)
	g.untrack(b)
}

// Reserve returns an address on which, for the moment, nothing listens (connection refused).
func Reserve() string {
	ln, err := net.Listen("tcp", "127.0.0.1:0")
	if err != nil {
		panic(err)
	}
	a := ln.Addr().String()
	ln.Close()
	return a
}
